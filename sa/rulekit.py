"""Helpers shared by the per-property rule modules."""
from __future__ import annotations

import ast

from .cfg import CFG, names_read
from .loader import AnalysisError, FuncInfo, Repo, call_attr, call_name, dotted, unparse, walk_own

MUTATORS = {
    "add", "append", "appendleft", "extend", "extendleft", "insert", "remove", "discard",
    "pop", "popleft", "popitem", "clear", "update", "setdefault", "sort", "reverse",
    "difference_update", "intersection_update", "symmetric_difference_update",
    "rotate",
}

# Receiver attribute -> class name, for call resolution through fields. Each entry is
# verified on every run against an assignment `self.<attr> = <Class>(...)` or a
# constructor argument binding somewhere in the package (see Ctx._verify_field_types).
FIELD_TYPES = {
    "_message_accumulator": "MessageAccumulator",
    "_txn_manager": "TransactionManager",
    "_sender": "Sender",
    "_subscription": "SubscriptionState",
    "_subscriptions": "SubscriptionState",
    "_fetcher": "Fetcher",
    "_coordinator": ("GroupCoordinator", "NoGroupCoordinator"),
    "_client": "AIOKafkaClient",
    "client": "AIOKafkaClient",
    "_cluster": "ClusterMetadata",
    "cluster": "ClusterMetadata",
    "_rebalance": "CoordinatorGroupRebalance",
    "rebalance": "CoordinatorGroupRebalance",
    "conn": "AIOKafkaConnection",
    "bootstrap_conn": "AIOKafkaConnection",
    "_coordinator_obj": "GroupCoordinator",
}


class Ctx:
    def __init__(self, repo: Repo, rep, tier="quick"):
        self.repo = repo
        self.rep = rep
        self.tier = tier
        self._cfgs = {}
        self._susp = {}
        self._index = None
        self.inline_bound = 3 if tier == "quick" else 6

    # ---- anchors ---------------------------------------------------------
    def fn(self, q) -> FuncInfo:
        fi = self.repo.func(q)
        self.rep.functions.add(fi.qualname)
        return fi

    def cfg(self, fi) -> CFG:
        if isinstance(fi, str):
            fi = self.fn(fi)
        c = self._cfgs.get(fi.qualname)
        if c is None:
            c = CFG(fi.node, fi.qualname)
            self._cfgs[fi.qualname] = c
            self.rep.cfg_nodes += len(c.nodes)
        self.rep.functions.add(fi.qualname)
        return c

    def site(self, fi, node=None):
        ln = 0
        if node is not None:
            ln = getattr(node, "lineno", 0) or 0
        elif fi is not None:
            ln = fi.node.lineno
        if fi is None:
            return f"?:{ln}"
        return f"{fi.path}:{ln} {fi.qualname}"

    def key(self, fi, text):
        return f"{fi.qualname if fi is not None else '?'}|{text}"

    def ob(self, rule, fi, node, ok, detail="", text=None):
        """Record an obligation located at `node` (CFG node or ast node) of `fi`."""
        a = getattr(node, "ast", node)
        if text is None:
            text = _short(a)
        return self.rep.ob(rule, self.site(fi, node), self.key(fi, text), ok, detail)

    def anchor(self, cond, what):
        if not cond:
            raise AnalysisError(f"anchor lost: {what}")

    def one(self, nodes, what):
        if len(nodes) != 1:
            raise AnalysisError(f"anchor ambiguous or lost: expected exactly one {what}, found {len(nodes)}")
        return nodes[0]

    def floor(self, nodes, n, what):
        if len(nodes) < n:
            raise AnalysisError(f"anchor count below floor: {what}: {len(nodes)} < {n}")
        return nodes

    # ---- call resolution ---------------------------------------------------
    def resolve_call(self, fi, call):
        """List of FuncInfo the call may target inside the package ([] = unresolved)."""
        f = call.func
        out = []
        if isinstance(f, ast.Attribute):
            recv = f.value
            m = f.attr
            if isinstance(recv, ast.Name) and recv.id == "self" and fi.cls is not None:
                r = self.repo.resolve_method(fi.cls, m)
                if r is not None:
                    out.append(r)
                for sc in self.repo.subclasses(fi.cls):
                    if m in sc.methods and sc.methods[m] not in out:
                        out.append(sc.methods[m])
            elif isinstance(recv, ast.Call) and isinstance(recv.func, ast.Name) and recv.func.id == "super" and fi.cls is not None:
                for c in self.repo.mro(fi.cls)[1:]:
                    if m in c.methods:
                        out.append(c.methods[m])
                        break
            else:
                rattr = recv.attr if isinstance(recv, ast.Attribute) else (
                    recv.id if isinstance(recv, ast.Name) else None)
                ft = FIELD_TYPES.get(rattr)
                if ft is not None:
                    for cn in (ft if isinstance(ft, tuple) else (ft,)):
                        ci = self.repo.class_named(cn)
                        if ci is not None:
                            r = self.repo.resolve_method(ci, m)
                            if r is not None:
                                out.append(r)
                if not out and rattr is not None:
                    # local variable bound to a constructor call of a package class
                    ci = self._local_class(fi, rattr)
                    if ci is not None:
                        r = self.repo.resolve_method(ci, m)
                        if r is not None:
                            out.append(r)
                            for sc in self.repo.subclasses(ci):
                                if m in sc.methods and sc.methods[m] not in out:
                                    out.append(sc.methods[m])
                if not out:
                    cands = self.repo.methods_named(m)
                    if len(cands) == 1 and not m.startswith("__") and m not in _COMMON_METHOD_NAMES:
                        out = cands
        elif isinstance(f, ast.Name):
            q = f"{fi.module.name}.{f.id}"
            if q in self.repo.funcs:
                out.append(self.repo.funcs[q])
            else:
                tgt = self._imported(fi.module, f.id)
                if tgt is not None and tgt in self.repo.funcs:
                    out.append(self.repo.funcs[tgt])
        if out:
            self.rep.resolved_calls += 1
        else:
            self.rep.unresolved_calls += 1
        return out

    def _local_class(self, fi, name):
        for n in walk_own(fi.node):
            if isinstance(n, ast.Assign) and len(n.targets) == 1 and isinstance(n.targets[0], ast.Name) \
                    and n.targets[0].id == name and isinstance(n.value, ast.Call):
                cn = call_attr(n.value)
                ci = self.repo.class_named(cn, near=fi.module) if cn else None
                if ci is not None:
                    return ci
        return None

    def _imported(self, module, name):
        for n in module.tree.body:
            if isinstance(n, ast.ImportFrom) and n.module:
                for a in n.names:
                    if (a.asname or a.name) == name:
                        base = n.module
                        if n.level:
                            parts = module.name.split(".")
                            base = ".".join(parts[: len(parts) - n.level] + ([n.module] if n.module else []))
                        return f"{base}.{a.name}"
        return None

    # ---- suspension points -------------------------------------------------
    def suspends(self, fi, node, depth=0):
        """Is this await/yield CFG node a point where other tasks may run?"""
        if node.kind == "yield":
            return True
        if node.kind != "await":
            return False
        a = node.ast
        if not isinstance(a, ast.Await):
            return True  # async for / async with
        v = a.value
        if isinstance(v, ast.Call):
            targets = self.resolve_call(fi, v)
            targets = [t for t in targets if t.is_async]
            if targets and depth < self.inline_bound:
                return any(self.func_may_suspend(t, depth + 1) for t in targets)
        return True

    def func_may_suspend(self, fi, depth=0):
        k = fi.qualname
        if k in self._susp:
            return self._susp[k]
        self._susp[k] = True  # cycles: assume yes
        c = self.cfg(fi)
        live = c.live_nodes()
        res = any(self.suspends(fi, n, depth) for n in c.nodes if n.kind in ("await", "yield") and n in live)
        self._susp[k] = res
        return res

    def suspension_nodes(self, fi):
        c = self.cfg(fi)
        return [n for n in c.nodes if n.kind in ("await", "yield") and self.suspends(fi, n)]

    def no_suspension_between(self, fi, a, b, also_avoid=()):
        """No path a -> b (not re-entering a) crosses a suspension point.
        Returns (ok, offending suspension node or None)."""
        c = self.cfg(fi)
        avoid = {a, *also_avoid}
        if b not in c.reachable([a], avoid=avoid):
            return True, None
        avoid = avoid | {b}
        fwd = c.reachable([a], avoid=avoid)
        back = c.co_reachable([b], avoid=avoid)
        for n in self.suspension_nodes(fi):
            if n in fwd and n in back and n is not b:
                return False, n
        return True, None

    # ---- package-wide indexes ------------------------------------------------
    def index(self):
        if self._index is None:
            self._index = _Index(self)
        return self._index

    def attr_writers(self, attr):
        """(fi, node, how) for every store/delete/mutating call on `<x>.attr` in the package."""
        return self.index().writers.get(attr, [])

    def attr_writers_of(self, attr, clsname, fields=()):
        """Writers of `<obj>.attr` where obj is an instance of class `clsname`: the receiver is `self`
        inside that class (or a subclass), or the receiver chain goes through one of `fields`
        (attribute names known to hold such an instance)."""
        out = []
        for wf, wn, how in self.attr_writers(attr):
            t = wn.ast.func.value if wn.kind == "call" else wn.ast
            while isinstance(t, ast.Subscript):
                t = t.value
            # t is now <recv>.attr (or <recv>.attr.method's value)
            if isinstance(t, ast.Attribute) and t.attr != attr and isinstance(t.value, ast.Subscript):
                t = t.value.value
            recv = t.value if isinstance(t, ast.Attribute) else None
            rtxt = unparse(recv) if recv is not None else ""
            oc = wf.owner_cls
            if rtxt == "self":
                if oc is not None and (oc.name == clsname or any(c.name == clsname for c in self.repo.mro(oc))):
                    out.append((wf, wn, how))
            elif any(rtxt.endswith("." + f) or rtxt == f for f in fields):
                out.append((wf, wn, how))
        return out

    def callers(self, method_name):
        """(fi, call-node) for every call `<x>.method_name(...)` / `method_name(...)`."""
        return self.index().calls.get(method_name, [])

    # ---- misc ------------------------------------------------------------
    def in_handler_of(self, node, exc_name):
        """Innermost-first handlers containing node whose type mentions exc_name."""
        out = []
        for a, role in reversed(node.within):
            if isinstance(a, ast.ExceptHandler) and role == "body":
                if a.type is not None and exc_name in unparse(a.type):
                    out.append(a)
        return out


_COMMON_METHOD_NAMES = {
    "close", "start", "stop", "send", "append", "add", "get", "pop", "remove", "clear",
    "update", "encode", "decode", "build", "done", "result", "cancel", "items", "keys",
    "values", "copy", "extend", "join", "read", "write", "size", "repr", "assign",
    "metadata", "name", "version", "set_result", "set_exception", "exception",
    "add_done_callback", "wait", "sleep", "create_task", "is_set", "set", "next_batch",
    "has_next", "subscription", "seek", "position", "partitions", "topics", "ready",
    "to_object", "discard", "insert", "index", "count", "sort", "reverse", "popleft",
    "appendleft", "format", "startswith", "endswith", "split", "strip", "lower", "upper",
}


def _short(a):
    if a is None:
        return "-"
    if isinstance(a, (ast.For, ast.AsyncFor, ast.While, ast.If, ast.Try, ast.With, ast.AsyncWith,
                      ast.FunctionDef, ast.AsyncFunctionDef, ast.ClassDef, ast.ExceptHandler)):
        return unparse(a).split("\n", 1)[0][:160]
    if isinstance(a, ast.AST):
        return unparse(a)[:160]
    return str(a)[:160]


class _Index:
    def __init__(self, ctx):
        self.writers = {}
        self.calls = {}
        self.reads = {}
        for fi in ctx.repo.funcs.values():
            c = CFG(fi.node, fi.qualname)
            for n in c.nodes:
                if n.kind in ("store", "delete"):
                    t = n.ast
                    if isinstance(t, ast.Attribute):
                        self.writers.setdefault(t.attr, []).append((fi, n, n.kind))
                    elif isinstance(t, ast.Subscript):
                        b = t.value
                        if isinstance(b, ast.Attribute):
                            self.writers.setdefault(b.attr, []).append((fi, n, n.kind + "[]"))
                elif n.kind == "call":
                    f = n.ast.func
                    nm = call_attr(n.ast)
                    if nm:
                        self.calls.setdefault(nm, []).append((fi, n))
                    if isinstance(f, ast.Attribute) and f.attr in MUTATORS:
                        b = f.value
                        if isinstance(b, ast.Subscript):
                            b = b.value
                            how = "[]." + f.attr
                        else:
                            how = "." + f.attr
                        if isinstance(b, ast.Attribute):
                            self.writers.setdefault(b.attr, []).append((fi, n, how))
        # module-level / class-level code is not indexed (no attribute writes of interest there)


# ---- small AST predicates used by many rules ---------------------------------
def is_call_to(node_ast, attr=None, name=None):
    if not isinstance(node_ast, ast.Call):
        return False
    if attr is not None and call_attr(node_ast) != attr:
        return False
    if name is not None and call_name(node_ast) != name:
        return False
    return True


def arg_of(call, pos=None, kw=None):
    if kw is not None:
        for k in call.keywords:
            if k.arg == kw:
                return k.value
    if pos is not None and pos < len(call.args):
        return call.args[pos]
    return None


def mentions(node_ast, text):
    return text in unparse(node_ast)


def attr_chain_endswith(node_ast, *attrs):
    """`a.b.c` ends with the given attribute names."""
    d = dotted(node_ast)
    if d is None:
        return False
    parts = d.split(".")
    return tuple(parts[-len(attrs):]) == tuple(attrs)


def test_nodes(c, pred):
    return [n for n in c.nodes if n.kind == "test" and pred(n.ast)]


def const_value(e):
    if isinstance(e, ast.Constant):
        return e.value
    if isinstance(e, ast.UnaryOp) and isinstance(e.op, ast.USub) and isinstance(e.operand, ast.Constant):
        return -e.operand.value
    return None


def class_attr(repo, modname, clsname, attr):
    """Value expression of class attribute `attr`, searched through bases within the module."""
    mod = repo.module(modname)
    seen = set()

    def find(cn):
        if cn in seen:
            return None
        seen.add(cn)
        ci = None
        for c in repo.classes_by_name.get(cn, []):
            if c.module is mod:
                ci = c
                break
        if ci is None:
            return None
        for s in ci.node.body:
            if isinstance(s, ast.Assign) and len(s.targets) == 1 and isinstance(s.targets[0], ast.Name) \
                    and s.targets[0].id == attr:
                return s.value
            if isinstance(s, ast.AnnAssign) and isinstance(s.target, ast.Name) and s.target.id == attr \
                    and s.value is not None:
                return s.value
        for b in ci.bases:
            r = find(b)
            if r is not None:
                return r
        return None

    return find(clsname)


def local_defs(c, name):
    """Store nodes defining local `name` in CFG c."""
    return [n for n in c.nodes if n.kind == "store" and isinstance(n.ast, ast.Name) and n.ast.id == name]


def def_value(store_node):
    """RHS expression assigned by the statement of a store node (simple Assign/AugAssign only)."""
    s = store_node.stmt
    if isinstance(s, ast.Assign):
        if len(s.targets) == 1 and s.targets[0] is store_node.ast:
            return s.value
        # tuple target: positional match when RHS is a tuple of same arity
        for t in s.targets:
            if isinstance(t, (ast.Tuple, ast.List)) and isinstance(s.value, (ast.Tuple, ast.List)) \
                    and len(t.elts) == len(s.value.elts):
                for te, ve in zip(t.elts, s.value.elts):
                    if te is store_node.ast:
                        return ve
        return None
    if isinstance(s, ast.AnnAssign):
        return s.value
    if isinstance(s, ast.AugAssign):
        return s
    return None


def none_tests(c, text):
    """[(test node, label meaning `<text> is None`, label meaning `<text> is not None`)] for every None-ness test of an expression."""
    out = []
    for t in c.nodes:
        if t.kind != "test":
            continue
        a = is_none_test(t.ast)
        if a is not None and unparse(a) == text:
            out.append((t, "T", "F"))
            continue
        a = is_none_test(t.ast, negate=True)
        if a is not None and unparse(a) == text:
            out.append((t, "F", "T"))
    return out


def only_return_value(fn_ast):
    """Expression returned by the function when it has exactly one `return <expr>` (wherever it is nested)."""
    rets = [n for n in ast.walk(fn_ast) if isinstance(n, ast.Return) and n.value is not None]
    return rets[0].value if len(rets) == 1 else None


def is_const_test(node):
    """CFG test node on a literal constant (`if True:`): carries no information about the program state."""
    return node.kind == "test" and isinstance(node.ast, ast.Constant)


def flatten_const_ifs(stmts):
    """Statement list with `if <truthy constant>:` blocks (no else) spliced in place."""
    out = []
    for s in stmts:
        if isinstance(s, ast.If) and isinstance(s.test, ast.Constant) and s.test.value and not s.orelse:
            out += flatten_const_ifs(s.body)
        else:
            out.append(s)
    return out


def is_none_test(e, negate=False):
    """`x is None` (or `x is not None` with negate). Returns the tested expr or None."""
    if isinstance(e, ast.Compare) and len(e.ops) == 1 and const_value(e.comparators[0]) is None \
            and isinstance(e.comparators[0], ast.Constant):
        if isinstance(e.ops[0], ast.IsNot if negate else ast.Is):
            return e.left
    return None


# ---- must-hold guard facts (forward dataflow over the CFG's atomic test nodes) ------------------------------------------------
_FLIP = {"<": ">", ">": "<", "<=": ">=", ">=": "<="}
_NEG = {"<": ">=", ">=": "<", ">": "<=", "<=": ">", "==": "!=", "!=": "==", "is": "is not", "is not": "is", "in": "not in", "not in": "in"}
_OPS = {ast.Lt: "<", ast.LtE: "<=", ast.Gt: ">", ast.GtE: ">=", ast.Eq: "==", ast.NotEq: "!=", ast.Is: "is", ast.IsNot: "is not",
        ast.In: "in", ast.NotIn: "not in"}


def _canon_atom(l, op, r):
    """(left, op, right) with > / >= rewritten as < / <= by swapping sides."""
    if op in (">", ">="):
        l, op, r = r, _FLIP[op], l
    return (l, op, r)


def atoms_of_test(test_ast, holds):
    """Atomic facts implied by a CFG test node's expression being true (holds) or false.  A chained comparison that is false
    implies nothing (it is a disjunction)."""
    e = test_ast
    if isinstance(e, ast.Compare):
        ops = [_OPS.get(type(o)) for o in e.ops]
        if None in ops:
            return set()
        terms = [unparse(e.left)] + [unparse(x) for x in e.comparators]
        if holds:
            return {_canon_atom(terms[i], ops[i], terms[i + 1]) for i in range(len(ops))}
        if len(ops) == 1:
            return {_canon_atom(terms[0], _NEG[ops[0]], terms[1])}
        return set()
    return {(unparse(e), "truthy" if holds else "falsy", "")}


def must_facts(c, exc=True):
    """node -> frozenset of atoms that hold on every path from the entry to (the start of) that node.  Facts mentioning a name or
    attribute are dropped when it is re-bound (store nodes, loop targets, augmented assignments, deletes)."""
    cached = getattr(c, "_must_facts", None)
    if cached is not None and cached[0] == exc:
        return cached[1]
    TOP = None
    IN = {n: TOP for n in c.nodes}
    IN[c.entry] = frozenset()

    def kills(n):
        if n.kind in ("store", "augstore", "del", "delete", "fornext", "withitem") and n.ast is not None:
            t = n.ast
            if n.kind == "fornext":
                t = n.ast.target
            out = set()
            for x in ast.walk(t) if not isinstance(t, (ast.Name, ast.Attribute, ast.Subscript)) else [t]:
                if isinstance(x, (ast.Name, ast.Attribute, ast.Subscript)):
                    out.add(unparse(x))
            return out
        return set()

    def mentions(atom, texts):
        import re
        for tx in texts:
            pat = r"(?<![\w.])" + re.escape(tx) + r"(?![\w])"
            if re.search(pat, atom[0]) or re.search(pat, atom[2]):
                return True
        return False

    work = [c.entry]
    guard = 0
    while work:
        guard += 1
        if guard > 200000:
            raise AnalysisError("must_facts: no fixpoint")
        n = work.pop()
        cur = IN[n]
        if cur is TOP:
            continue
        k = kills(n)
        base = frozenset(a for a in cur if not mentions(a, k)) if k else cur
        for m, l in n.succ:
            if l == "exc" and not exc:
                continue
            out = base
            if n.kind == "test" and l in ("T", "F"):
                out = base | frozenset(atoms_of_test(n.ast, l == "T"))
            elif n.kind == "assert" and l != "exc" and isinstance(n.ast, ast.Assert):
                # execution continues past an assert only when its condition held
                conj = [n.ast.test]
                while any(isinstance(x, ast.BoolOp) and isinstance(x.op, ast.And) for x in conj):
                    conj = [y for x in conj for y in (x.values if isinstance(x, ast.BoolOp) and isinstance(x.op, ast.And) else [x])]
                for x in conj:
                    neg = False
                    while isinstance(x, ast.UnaryOp) and isinstance(x.op, ast.Not):
                        x, neg = x.operand, not neg
                    out = out | frozenset(atoms_of_test(x, not neg))
            new = out if IN[m] is TOP else (IN[m] & out)
            if IN[m] is TOP or new != IN[m]:
                IN[m] = new
                work.append(m)
    res = {n: (IN[n] if IN[n] is not TOP else frozenset()) for n in c.nodes}
    try:
        c._must_facts = (exc, res)
    except AttributeError:
        pass
    return res


def holds_at(c, node, l, op, r):
    """Is the comparison  l op r  guaranteed on every path to `node` (either directly, or `<` when `<=` is asked)?"""
    f = must_facts(c)[node]
    a = _canon_atom(l, op, r)
    if a in f:
        return True
    if a[1] == "<=" and ((a[0], "<", a[2]) in f or (a[0], "==", a[2]) in f or (a[2], "==", a[0]) in f):
        return True
    return False


def concat_parts(e):
    """String built by `+` and/or an f-string as a list of parts ('s', literal) / ('e', expression text); adjacent literals merged,
    so that  "," + x  and  f",{x}"  compare equal.  None when a formatted value carries a conversion or a format spec."""
    out = []

    def add(kind, v):
        if kind == "s" and out and out[-1][0] == "s":
            out[-1] = ("s", out[-1][1] + v)
        elif not (kind == "s" and v == ""):
            out.append((kind, v))

    def go(x):
        if isinstance(x, ast.BinOp) and isinstance(x.op, ast.Add):
            return go(x.left) and go(x.right)
        if isinstance(x, ast.Constant) and isinstance(x.value, str):
            add("s", x.value)
            return True
        if isinstance(x, ast.JoinedStr):
            for v in x.values:
                if isinstance(v, ast.Constant):
                    add("s", v.value)
                elif isinstance(v, ast.FormattedValue) and v.conversion == -1 and v.format_spec is None:
                    add("e", unparse(v.value))
                else:
                    return False
            return True
        add("e", unparse(x))
        return True
    return out if go(e) else None


# ---- per-instance state ------------------------------------------------------------------------------------------------------------
_MUTATORS = {"append", "appendleft", "extend", "add", "update", "pop", "popleft", "remove", "discard", "clear", "insert", "setdefault", "popitem", "sort"}
_CONTAINER_CALLS = {"list", "dict", "set", "deque", "defaultdict", "OrderedDict", "collections.deque", "collections.defaultdict", "collections.OrderedDict", "Counter",
                    "collections.Counter", "bytearray"}


def shared_class_containers(repo, cls_qualnames):
    """Class-level attributes that hold a mutable container, are mutated in place through `self.<attr>` somewhere in the class (or
    subscripted-assigned) and are NOT re-bound per instance in __init__: one object shared by every instance of the class.
    Returns [(class info, attribute, class-body statement, (method, line) of a mutation)]."""
    out = []
    for cq in cls_qualnames:
        try:
            ci = repo.cls(cq)
        except Exception:
            continue
        cand = {}
        for st in ci.node.body:
            tgt = val = None
            if isinstance(st, ast.Assign) and len(st.targets) == 1 and isinstance(st.targets[0], ast.Name):
                tgt, val = st.targets[0].id, st.value
            elif isinstance(st, ast.AnnAssign) and isinstance(st.target, ast.Name) and st.value is not None:
                tgt, val = st.target.id, st.value
            if tgt is None:
                continue
            if isinstance(val, (ast.List, ast.Dict, ast.Set, ast.ListComp, ast.DictComp, ast.SetComp)) or \
                    (isinstance(val, ast.Call) and unparse(val.func) in _CONTAINER_CALLS):
                cand[tgt] = st
        if not cand:
            continue
        init = ci.methods.get("__init__")
        rebound = set()
        if init is not None:
            for n in ast.walk(init.node):
                if isinstance(n, ast.Attribute) and isinstance(n.ctx, ast.Store) and isinstance(n.value, ast.Name) and n.value.id == "self":
                    rebound.add(n.attr)
        for attr, st in cand.items():
            if attr in rebound:
                continue
            hit = None
            for mname, m in ci.methods.items():
                for n in ast.walk(m.node):
                    if isinstance(n, ast.Call) and isinstance(n.func, ast.Attribute) and n.func.attr in _MUTATORS and unparse(n.func.value) == f"self.{attr}":
                        hit = (mname, n.lineno)
                    if isinstance(n, ast.Subscript) and isinstance(n.ctx, (ast.Store, ast.Del)) and unparse(n.value) == f"self.{attr}":
                        hit = (mname, n.lineno)
                    if isinstance(n, ast.AugAssign) and unparse(n.target) == f"self.{attr}":
                        hit = None if hit is None else hit
            if hit is not None:
                out.append((ci, attr, st, hit))
    return out
