"""C02 -- every send future resolves once, with the record's true coordinates."""
from __future__ import annotations

import ast

from ..cfg import enum_paths
from ..loader import AnalysisError, call_attr, call_name, dotted, unparse, walk_own
from ..prototab import ProtoTable, elem_schema, find_field
from ..rulekit import arg_of, const_value, def_value, is_none_test, local_defs
from . import c01

ACC = c01.ACC
BATCH = c01.BATCH
HANDLER = c01.HANDLER
SENDER = c01.SENDER
PRODUCER = "aiokafka.producer.producer.AIOKafkaProducer"


def _loop_heads(c, n):
    return [c.loop_head(a) for a, r in n.within if isinstance(a, (ast.For, ast.While)) and r == "body"]


def rule_once(ctx):
    R = "once"
    ctx.rep.rule(R, "every set_result/set_exception in MessageBatch is guarded by a not-done() test on that same future "
                    "(test on every path, resolution unreachable from the branch where done() is true)")
    n_sites = 0
    ci = ctx.repo.cls(BATCH)
    for name, fi in sorted(ci.methods.items()):
        c = ctx.cfg(fi)
        for n in c.nodes:
            if n.kind != "call" or call_attr(n.ast) not in ("set_result", "set_exception"):
                continue
            n_sites += 1
            recv = unparse(n.ast.func.value)
            tests = [t for t in c.nodes if t.kind == "test" and isinstance(t.ast, ast.Call) and call_attr(t.ast) == "done"
                     and unparse(t.ast.func.value) == recv]
            heads = [h for h in _loop_heads(c, n) if h is not None]
            ok = bool(tests) and any(c.dominates(t, n) for t in tests)
            if ok:
                for t in tests:
                    ts = [m for m, l in t.succ if l == "T"]
                    if n in c.reachable(ts, avoid=set(heads), include_src=True):
                        ok = False
            # no re-binding of the receiver between test and resolution
            ctx.ob(R, fi, n, ok, f"{unparse(n.ast)[:60]} can run on a future that is already done", text=f"{call_attr(n.ast)}:{recv}")
    if n_sites < 7:
        raise AnalysisError(f"once: {n_sites} resolution sites in MessageBatch (floor 7)")
    # futures are created once per batch / per record
    fi = ctx.fn(f"{BATCH}.append")
    c = ctx.cfg(fi)
    apps = [n for n in c.calls(attr="append") if unparse(n.ast.func.value) == "self._msg_futures"]
    ctx.ob(R, fi, fi.node, len(apps) == 1, "append() does not register exactly one (future, metadata) per record", text="register")
    for a in apps:
        el = arg_of(a.ast, 0)
        okp = isinstance(el, ast.Tuple) and len(el.elts) == 2
        rets = [r for r in c.nodes if r.kind == "return" and r.ast.value is not None and const_value(r.ast.value) is None and not isinstance(r.ast.value, ast.Constant)]
        okr = okp and any(unparse(r.ast.value) == unparse(el.elts[0]) for r in rets)
        ctx.ob(R, fi, a, okr, "the future returned to the caller is not the one registered for resolution", text="returned-is-registered")
        # metadata registered is the builder's return for this record
        md = el.elts[1] if okp else None
        okm = False
        if isinstance(md, ast.Name):
            ds = local_defs(c, md.id)
            okm = len(ds) == 1 and isinstance(def_value(ds[0]), ast.Call) and unparse(def_value(ds[0]).func) == "self._builder.append"
        ctx.ob(R, fi, a, okm, "registered metadata is not what the builder returned for this record", text="metadata-source")
        nt = [t for t in c.nodes if t.kind == "test" and is_none_test(t.ast) is not None]
        ctx.ob(R, fi, a, any(c.dominated_by_branch(t, "F", a) for t in nt), "a future is registered for a record the builder rejected", text="rejected-not-registered")


def _record_fields(ctx):
    ci = ctx.repo.cls("aiokafka.structs.RecordMetadata")
    return [s.target.id for s in ci.node.body if isinstance(s, ast.AnnAssign) and isinstance(s.target, ast.Name)]


def rule_per_record(ctx):
    R = "per-record"
    ctx.rep.rule(R, "MessageBatch.done: inside the loop over _msg_futures no value used for a record's RecordMetadata is "
                    "carried over from a previous iteration; offset = base_offset + that record's relative offset; timestamp is the "
                    "broker's, or that record's own when the broker answered -1; timestamp_type is 0 exactly when the broker answered -1")
    fi = ctx.fn(f"{BATCH}.done")
    c = ctx.cfg(fi)
    # the relative offset a record is written with (and later reported at: base_offset + relative offset) is the builder's counter,
    # which must move by one exactly for every accepted record -- otherwise a record is reported at an offset it does not sit at
    c01._count_chain(ctx, R, fi, None)
    fields = _record_fields(ctx)
    ctx.anchor(fields[:7] == ["topic", "partition", "topic_partition", "offset", "timestamp", "timestamp_type", "log_start_offset"],
               "RecordMetadata field order")
    params = fi.params()
    mk = None
    for p in params:
        if "metadata_class" in p:
            mk = p
    loops = [n for n in c.nodes if n.kind == "loop" and isinstance(n.ast, ast.For) and unparse(n.ast.iter) == "self._msg_futures"]
    head = ctx.one(loops, "loop over self._msg_futures in done()")
    la = head.ast
    tnames = [x.id for x in ast.walk(la.target) if isinstance(x, ast.Name)]
    ctx.anchor(len(tnames) == 2, "loop target (future, metadata)")
    fut_name, md_name = tnames
    body = c.loop_body(head)
    sets = [n for n in c.calls(attr="set_result") if n in body]
    sets = ctx.floor(sets, 1, "per-record set_result")
    rd = c.reaching_defs()
    for s in sets:
        ctx.ob(R, fi, s, dotted(s.ast.func.value) == fut_name, "per-record result set on something other than the record's future", text="target-future")
        val = arg_of(s.ast, 0)
        ok_ctor = isinstance(val, ast.Call) and (unparse(val.func) in (mk, "RecordMetadata"))
        ctx.ob(R, fi, s, ok_ctor, "per-record result is not a RecordMetadata", text="ctor")
        if not ok_ctor:
            continue
        args = {}
        for i, a in enumerate(val.args):
            if i < len(fields):
                args[fields[i]] = a
        for k in val.keywords:
            args[k.arg] = k.value
        # loop-carried values
        for fname, a in args.items():
            for nm in sorted({x.id for x in ast.walk(a) if isinstance(x, ast.Name)}):
                defs_in_body = [d for d in c.nodes if d.kind == "store" and isinstance(d.ast, ast.Name) and d.ast.id == nm and d in body and d is not head]
                carried = False
                for d in defs_in_body:
                    if d in rd[head].get(nm, ()):  # reaches the loop head through the back edge
                        alldefs = [x for x in c.nodes if nm in c.defs_of(x) and x in body]
                        if s in c.reachable([head], avoid=set(alldefs)) :
                            carried = True
                ctx.ob(R, fi, s, not carried, f"`{nm}` used for RecordMetadata.{fname} keeps a value assigned while resolving an earlier record", text=f"carried:{fname}:{nm}")
        # offset
        off = _resolve_local(c, args.get("offset"), s, rd)
        ok_off = isinstance(off, ast.BinOp) and isinstance(off.op, ast.Add) and {unparse(off.left), unparse(off.right)} == {params[1], f"{md_name}.offset"}
        ctx.ob(R, fi, s, ok_off, f"record offset is {unparse(off) if off is not None else None}, not base_offset + metadata.offset", text="offset-expr")
        # timestamp: all reaching definitions
        tsv = args.get("timestamp")
        ok_ts = False
        if isinstance(tsv, ast.Name):
            ds = rd[s].get(tsv.id, set())
            vals = set()
            good = True
            for d in ds:
                if d.kind == "entry":
                    vals.add("param:" + tsv.id)
                    if tsv.id != params[2]:
                        good = False
                else:
                    v = def_value(d)
                    vals.add(unparse(v) if v is not None else "?")
                    if v is None:
                        good = False
                    elif unparse(v) == f"{md_name}.timestamp":
                        # must be under `timestamp == -1`
                        tt = [t for t in c.nodes if t.kind == "test" and _is_minus1_test(t.ast, params[2])]
                        if not any(c.dominated_by_branch(t, "T", d) for t in tt):
                            good = False
                    elif unparse(v) == params[2]:
                        tt = [t for t in c.nodes if t.kind == "test" and _is_minus1_test(t.ast, params[2])]
                        if not any(c.dominated_by_branch(t, "F", d) for t in tt):
                            good = False
                    else:
                        good = False
            ok_ts = good and any(v == f"{md_name}.timestamp" for v in vals)
        ctx.ob(R, fi, s, ok_ts, "record timestamp is not `the broker's, else this record's own`", text="timestamp-expr")
        for fname, want in (("topic", "topic"), ("partition", "partition")):
            v = _resolve_local(c, args.get(fname), s, rd)
            v2 = _resolve_attr_chain(c, v, s, rd)
            ctx.ob(R, fi, s, v2 == f"self._tp.{want}", f"RecordMetadata.{fname} is {v2}", text="field-" + fname)
        v = args.get("log_start_offset")
        ctx.ob(R, fi, s, v is not None and unparse(v) == params[3], "log_start_offset not forwarded", text="field-lso")
    # timestamp_type
    tts = local_defs(c, "timestamp_type")
    okt = len(tts) == 2
    for d in tts:
        v = const_value(def_value(d)) if def_value(d) is not None else None
        tt = [t for t in c.nodes if t.kind == "test" and _is_minus1_test(t.ast, params[2])]
        if v == 0:
            okt = okt and any(c.dominated_by_branch(t, "T", d) for t in tt)
        elif v == 1:
            okt = okt and any(c.dominated_by_branch(t, "F", d) for t in tt)
        else:
            okt = False
    ctx.ob(R, fi, fi.node, okt and not any(d in body for d in tts), "timestamp_type is not `0 iff broker timestamp == -1`", text="timestamp-type")
    # param must not be rebound before the type decision
    # batch-level future carries base offset
    bs = [n for n in c.calls(attr="set_result") if n not in body]
    for s in bs:
        val = arg_of(s.ast, 0)
        ok = isinstance(val, ast.Call) and len(val.args) >= 4 and unparse(val.args[3]) == params[1]
        ctx.ob(R, fi, s, ok, "batch future does not carry the base offset", text="batch-offset")
    # handle_response passes (offset, timestamp, log_start_offset) of the partition entry, in this order
    fh = ctx.fn(f"{HANDLER}.handle_response")
    ch = ctx.cfg(fh)
    dn = ch.calls(attr="done")
    ctx.floor(dn, 1, "batch.done(...) in handle_response")
    for d in dn:
        a = [unparse(x) for x in d.ast.args]
        ctx.ob(R, fh, d, a == ["offset", "timestamp", "log_start_offset"], f"done() called with {a}", text="done-args")


def _is_minus1_test(e, pname):
    return (isinstance(e, ast.Compare) and len(e.ops) == 1 and isinstance(e.ops[0], ast.Eq)
            and unparse(e.left) == pname and const_value(e.comparators[0]) == -1)


def _resolve_local(c, e, at, rd):
    """Follow a single-definition local to its value expression."""
    seen = 0
    while isinstance(e, ast.Name) and seen < 5:
        ds = [d for d in rd[at].get(e.id, ()) ]
        if len(ds) != 1 or ds[0].kind != "store":
            return e
        v = def_value(ds[0])
        if v is None or isinstance(v, ast.AugAssign):
            return e
        e = v
        seen += 1
    return e


def _resolve_attr_chain(c, e, at, rd):
    """unparse with leading local names substituted by their single definitions (tp -> self._tp)."""
    if e is None:
        return None
    parts = []
    cur = e
    while isinstance(cur, ast.Attribute):
        parts.append(cur.attr)
        cur = cur.value
    if isinstance(cur, ast.Name) and cur.id != "self":
        base = _resolve_local(c, cur, at, rd)
        if base is not cur:
            b = _resolve_attr_chain(c, base, at, rd)
            return ".".join([b] + list(reversed(parts)))
    return unparse(e)


def rule_all_resolved(ctx):
    R = "all-resolved"
    ctx.rep.rule(R, "typestate `popped batch`: in drain_by_nodes every popped batch is filed under a node, done_noack-ed (empty) or "
                    "failed on every path; in SendProduceReqHandler.do every batch is resolved or requeued on the exception arm, the acks=0 "
                    "arm and the response arm (shares C01 classify); acks==0 resolves with done_noack only")
    fi = ctx.fn(f"{ACC}.drain_by_nodes")
    c = ctx.cfg(fi)
    pops = ctx.floor(c.calls(attr="_pop_batch"), 1, "_pop_batch in drain_by_nodes")
    for p in pops:
        st = p.stmt
        ok_bind = isinstance(st, ast.Assign) and isinstance(st.targets[0], ast.Name)
        ctx.ob(R, fi, p, ok_bind, "popped batch is dropped on the floor", text="pop-bound")
        if not ok_bind:
            continue
        b = st.targets[0].id
        la = c.enclosing(p, types=(ast.For,), role="body")[-1][0]
        head = c.loop_head(la)
        ev = []
        for n in c.nodes:
            if n.kind == "call" and call_attr(n.ast) in ("done_noack", "failure", "done") and dotted(n.ast.func.value) == b:
                ev.append(n)
            if n.kind == "store" and isinstance(n.ast, ast.Subscript) and isinstance(n.stmt, ast.Assign) and unparse(n.stmt.value) == b:
                ev.append(n)
        start = [x for x in c.nodes if x.kind == "stmt" and x.ast is st][0]
        paths = enum_paths(c, start, [head, c.exit], exc=False)
        bad = [p2 for p2 in paths if len([n for n in p2 if n in ev]) != 1]
        ctx.ob(R, fi, p, not bad and bool(paths), "a popped batch can leave the drain loop neither filed, acknowledged nor failed (or twice)"
               + (f": lines {[n.lineno for n in bad[0] if n.kind in ('test','call')]}" if bad else ""), text="pop-resolved:" + c01._where(c, p))
        # empty batches are not sent
        for n in ev:
            if n.kind == "store":
                tt = [t for t in c.nodes if t.kind == "test" and isinstance(t.ast, ast.Call) and call_attr(t.ast) == "is_empty"]
                ctx.ob(R, fi, n, any(c.dominated_by_branch(t, "F", n) for t in tt), "an empty batch can be sent", text="non-empty-sent")
    # noack arm
    fd = ctx.fn(f"{HANDLER}.do")
    cd = ctx.cfg(fd)
    tests = [t for t in cd.nodes if t.kind == "test" and isinstance(t.ast, ast.Compare) and isinstance(t.ast.ops[0], ast.Eq)
             and const_value(t.ast.comparators[0]) == 0 and unparse(t.ast.left).endswith("acks")]
    t = ctx.one(tests, "`required_acks == 0` test in do()")
    na = cd.calls(attr="done_noack")
    hr = cd.calls(attr="handle_response")
    ctx.ob(R, fd, t, bool(na) and all(cd.dominated_by_branch(t, "T", n) for n in na), "done_noack outside the acks==0 arm", text="noack-arm")
    ctx.ob(R, fd, t, bool(hr) and all(cd.dominated_by_branch(t, "F", n) for n in hr), "response not handled when acks != 0", text="ack-arm")
    tb = cd.reachable([m for m, l in t.succ if l == "T"], avoid=[x for x, l in t.succ if l == "F"], exc=False, include_src=True)
    others = [n for n in c01._resolution_events(cd) if cd.dominated_by_branch(t, "T", n) and call_attr(n.ast) != "done_noack"]
    ctx.ob(R, fd, t, not others, "acks==0 arm resolves with something other than done_noack", text="noack-only")
    # required_acks is the configured acks
    fc = ctx.fn(f"{HANDLER}.create_request")
    cc = ctx.cfg(fc)
    pr = ctx.one(cc.calls(name="ProduceRequest"), "ProduceRequest(...) in create_request")
    ctx.ob(R, fc, pr, unparse(arg_of(pr.ast, kw="required_acks") or ast.Constant(None)) == "self._sender._acks", "required_acks is not the sender's acks", text="acks-flow")
    ra = ctx.fn("aiokafka.protocol.produce.ProduceRequest.required_acks")
    rets = [n for n in ctx.cfg(ra).nodes if n.kind == "return"]
    ctx.ob(R, ra, ra.node, len(rets) == 1 and unparse(rets[0].ast.value) == "self._required_acks", "required_acks property", text="acks-prop")
    # done_noack resolves with None
    fn = ctx.fn(f"{BATCH}.done_noack")
    for n in ctx.cfg(fn).calls(attr="set_result"):
        a = arg_of(n.ast, 0)
        ctx.ob(R, fn, n, isinstance(a, ast.Constant) and a.value is None, "acks=0 resolves with metadata", text="noack-none")


def rule_reply_shape(ctx):
    R = "reply-shape"
    ctx.rep.rule(R, "symbolic evaluation of handle_response for every ProduceRequest version the builder can select, against "
                    "ProduceResponse_vN's schema: batch.done() receives that partition entry's offset, its timestamp (the CreateTime marker "
                    "-1 when the version has none) and its log_start_offset (None when the version has none); the batch is looked up under "
                    "(topic, partition) of that entry; the error class comes from that entry's error_code; no unpack arity mismatch")
    from ..symeval import Const, Field, SymEval, Tup, Unk, make_struct
    pt = ProtoTable(ctx.repo)
    b = ctx.one([x for x in pt.builders() if x.name == "ProduceRequest"], "ProduceRequest builder")
    fh = ctx.fn(f"{HANDLER}.handle_response")
    rparam = fh.params()[1]
    classes = pt.builder_classes(b)
    ctx.floor(classes, 8, "selectable ProduceRequest versions")
    for rc in classes:
        v = pt.const(rc, "API_VERSION")
        resp = pt.response_type(rc)
        ctx.anchor(resp is not None, f"RESPONSE_TYPE of {rc.name}")
        sch = pt.schema(resp)
        part = elem_schema(find_field(sch, ["topics", "partitions"]))
        ctx.anchor(part is not None and part[0] == "schema", f"{resp.name} topics/partitions schema")
        names = [n for n, _ in part[1]]
        se = SymEval(interest=lambda c: c.endswith(".done") or c.endswith(".get") or c == "TopicPartition" or c.endswith("for_code") or c == "<unpack-mismatch>")
        paths = se.run_function(fh.node, {rparam: make_struct(sch, pt.const(resp, "API_VERSION"), resp.name), "self": Unk("self")})
        site = f"{fh.path}:{fh.node.lineno} {fh.qualname}"
        base = "topics[].partitions[]."
        want_ts = Field(base + "timestamp") if "timestamp" in names else Const(-1)
        want_lso = Field(base + "log_start_offset") if "log_start_offset" in names else Const(None)
        dones, mism, tps, codes = [], [], [], []
        for p in paths:
            for e in p.events:
                if e.callee.endswith(".done"):
                    dones.append(e)
                elif e.callee == "<unpack-mismatch>":
                    mism.append(e)
                elif e.callee == "TopicPartition":
                    tps.append(e)
                elif e.callee.endswith("for_code"):
                    codes.append(e)
        ctx.rep.ob(R, site, f"{fh.qualname}|v{v}-unpack", not mism, f"v{v}: unpacking {mism[0].args[0] if mism else ''} names from a partition entry of {len(names)} fields {names}")
        ctx.rep.ob(R, site, f"{fh.qualname}|v{v}-done-reached", bool(dones), f"v{v}: no path reaches batch.done()")
        def arg(e, i, kw):
            if i < len(e.args):
                return e.args[i]
            return e.kwargs.get(kw, Const(None))
        for e in dones:
            ok = arg(e, 0, "base_offset") == Field(base + "offset")
            ctx.rep.ob(R, site, f"{fh.qualname}|v{v}-offset", ok, f"v{v}: batch.done() base offset is {arg(e, 0, 'base_offset')!r}, not the entry's offset")
            ok = arg(e, 1, "timestamp") == want_ts
            ctx.rep.ob(R, site, f"{fh.qualname}|v{v}-timestamp", ok, f"v{v}: batch.done() timestamp is {arg(e, 1, 'timestamp')!r}, expected {want_ts!r}")
            ok = arg(e, 2, "log_start_offset") == want_lso
            ctx.rep.ob(R, site, f"{fh.qualname}|v{v}-lso", ok, f"v{v}: batch.done() log_start_offset is {arg(e, 2, 'log_start_offset')!r}, expected {want_lso!r}")
        ctx.rep.ob(R, site, f"{fh.qualname}|v{v}-tp", bool(tps) and all(len(e.args) == 2 and e.args[0] == Field("topics[].topic") and e.args[1] == Field(base + "partition") for e in tps),
                   f"v{v}: batch looked up under {tps[0].args if tps else None}")
        ctx.rep.ob(R, site, f"{fh.qualname}|v{v}-error-code", bool(codes) and all(e.args and e.args[0] == Field(base + "error_code") for e in codes),
                   f"v{v}: error class derived from {codes[0].args if codes else None}")



def rule_flush(ctx):
    R = "flush"
    ctx.rep.rule(R, "flush()/flush_for_commit() wait on the futures of both queued and pending batches; _pending_batches is added to "
                    "only when a batch is popped and removed only when it resolves or is re-enqueued; close() sets _closed before flushing; "
                    "producer.stop(): flush-vs-sender race, then sender.close(), then client.close()")
    for q in (f"{ACC}.flush", f"{ACC}.flush_for_commit"):
        fi = ctx.fn(q)
        c = ctx.cfg(fi)
        src = unparse(fi.node)
        aw = [n for n in c.nodes if n.kind == "await" and isinstance(n.ast, ast.Await) and isinstance(n.ast.value, ast.Call)
              and call_name(n.ast.value) in ("asyncio.wait", "asyncio.gather")]
        ctx.ob(R, fi, fi.node, len(aw) == 1, "flush does not await its waiters", text="awaits")
        if len(aw) != 1:
            continue
        wa = arg_of(aw[0].ast.value, 0)
        wname = wa.id if isinstance(wa, ast.Name) else (wa.value.id if isinstance(wa, ast.Starred) and isinstance(wa.value, ast.Name) else None)
        ctx.ob(R, fi, aw[0], wname is not None, "waiters argument not a local list", text="waiters-local")
        if wname is None:
            continue
        # sources feeding the list
        feeds = []
        for d in c.nodes:
            if d.kind == "store" and isinstance(d.ast, ast.Name) and d.ast.id == wname:
                feeds.append(unparse(d.stmt))
            if d.kind == "call" and call_attr(d.ast) in ("append", "extend") and dotted(d.ast.func.value) == wname:
                loops = [unparse(a.iter) for a, r in d.within if isinstance(a, ast.For)]
                feeds.append(unparse(d.ast) + " in " + ";".join(loops))
        txt = " || ".join(feeds)
        ctx.ob(R, fi, aw[0], "self._batches.values()" in txt and ".future" in txt, "queued batches are not waited for", text="covers-queued")
        ctx.ob(R, fi, aw[0], "self._pending_batches" in txt, "pending (in-flight) batches are not waited for", text="covers-pending")
        tests = [t for t in c.nodes if t.kind == "test" and isinstance(t.ast, ast.Name) and t.ast.id == wname]
        ctx.ob(R, fi, aw[0], all(_falls_to_exit(c, t) for t in tests), "flush can skip the wait with waiters outstanding", text="wait-guard")
    # flush_for_commit closes every queued builder
    fi = ctx.fn(f"{ACC}.flush_for_commit")
    c = ctx.cfg(fi)
    cl = [n for n in c.calls(attr="close") if "_builder" in unparse(n.ast.func.value)]
    ok = len(cl) == 1 and [unparse(a.iter) for a, r in cl[0].within if isinstance(a, ast.For)] == ["self._batches.values()", "batches"]
    ctx.ob(R, fi, fi.node, ok, "flush_for_commit does not close every queued batch builder", text="closes-builders")
    # _pending_batches discipline
    allowed = {(f"{ACC}.__init__", "store"), (f"{ACC}._pop_batch", ".add"), (f"{ACC}._pop_batch.cb", ".remove"), (f"{ACC}.reenqueue", ".remove")}
    seen = set()
    for wf, wn, how in ctx.attr_writers_of("_pending_batches", "MessageAccumulator", fields=("_message_accumulator",)):
        seen.add((wf.qualname, how))
        ctx.ob(R, wf, wn, (wf.qualname, how) in allowed, f"{wf.qualname} mutates _pending_batches with {how}", text="pending-writer:" + how)
    for need in sorted(allowed):
        f2 = ctx.fn(need[0])
        ctx.ob(R, f2, f2.node, need in seen, f"{need[0]} no longer does {need[1]} on _pending_batches", text="pending-required:" + need[1])
    fp = ctx.fn(f"{ACC}._pop_batch")
    cp = ctx.cfg(fp)
    adds = [n for n in cp.calls(attr="add") if unparse(n.ast.func.value) == "self._pending_batches"]
    ctx.ob(R, fp, fp.node, len(adds) == 1 and cp.exit not in cp.reachable([cp.entry], avoid=set(adds), exc=False),
           "a popped batch may not be recorded as pending", text="pending-add-all-paths")
    cbs = cp.calls(attr="add_done_callback")
    okcb = len(cbs) == 1 and unparse(cbs[0].ast.func.value).endswith(".future")
    ctx.ob(R, fp, fp.node, okcb, "no done-callback removes the batch from the pending set", text="pending-callback")
    # close(): flag before flush
    fc = ctx.fn(f"{ACC}.close")
    cc = ctx.cfg(fc)
    st = cc.stores(attr="_closed")
    aw = [n for n in cc.nodes if n.kind == "await"]
    ok = len(st) == 1 and const_value(st[0].stmt.value) is True and all(cc.dominates(st[0], a) for a in aw) and \
        any(call_attr(a.ast.value) == "flush" for a in aw if isinstance(a.ast.value, ast.Call))
    ctx.ob(R, fc, fc.node, ok, "close() does not set _closed before awaiting flush()", text="closed-before-flush")
    # producer.stop ordering
    fs = ctx.fn(f"{PRODUCER}.stop")
    cs = ctx.cfg(fs)
    aws = [n for n in cs.nodes if n.kind == "await" and isinstance(n.ast, ast.Await)]
    def find(pred):
        return [a for a in aws if pred(unparse(a.ast.value))]
    race = find(lambda t: t.startswith("asyncio.wait(") and "_message_accumulator.close()" in t and "sender_task" in t)
    sclose = find(lambda t: t == "self._sender.close()")
    cclose = find(lambda t: t == "self.client.close()")
    ctx.ob(R, fs, fs.node, len(race) == 1 and len(sclose) == 1 and len(cclose) == 1, "stop() lacks one of: flush race, sender.close, client.close", text="stop-steps")
    if len(race) == 1 and len(sclose) == 1 and len(cclose) == 1:
        ctx.ob(R, fs, sclose[0], cs.dominates(race[0], sclose[0]), "sender closed before the accumulator was flushed", text="flush-before-sender-close")
        ctx.ob(R, fs, cclose[0], cs.exit not in cs.reachable([race[0]], avoid=[sclose[0]], exc=False) and
               cs.exit not in cs.reachable([sclose[0]], avoid=[cclose[0]], exc=False), "stop() can return without closing sender and client", text="close-order")
        ctx.ob(R, fs, race[0], "FIRST_COMPLETED" in unparse(race[0].ast.value), "flush is not raced against sender failure", text="race-first-completed")
    # producer.flush delegates
    ff = ctx.fn(f"{PRODUCER}.flush")
    ctx.ob(R, ff, ff.node, any(unparse(a.ast.value) == "self._message_accumulator.flush()" for a in ctx.cfg(ff).nodes if a.kind == "await" and isinstance(a.ast, ast.Await)),
           "producer.flush() does not await the accumulator's flush", text="flush-delegates")


def _falls_to_exit(c, t):
    f = [m for m, l in t.succ if l == "F"]
    r = c.reachable(f, exc=False, include_src=True)
    return not any(n.kind in ("await",) for n in r)


def rule_fail_all(ctx):
    R = "fail-all"
    ctx.rep.rule(R, "a dying sender fails everything: _fail_all is attached to the sender task with no suspension in between; it calls "
                    "fail_all + fatal_error with the task's exception; fail_all covers queued and pending batches and stores _exception; "
                    "add_message / add_batch test _closed and _exception with no suspension before enqueuing")
    # a request task that died must take the sender down with it (only then are its batches failed): the routine retrieves the result
    # of every task asyncio.wait reported done, before dropping it from its set
    fr = ctx.fn(f"{SENDER}._sender_routine")
    cr = ctx.cfg(fr)
    wt = [n for n in cr.nodes if n.kind == "await" and isinstance(n.ast, ast.Await) and isinstance(n.ast.value, ast.Call) and call_name(n.ast.value) == "asyncio.wait"
          and isinstance(n.stmt, ast.Assign) and isinstance(n.stmt.targets[0], ast.Tuple)]
    okr = len(wt) == 1
    if okr:
        dn = unparse(n_.stmt.targets[0].elts[0]) if (n_ := wt[0]) else None
        loops = [h for h in cr.nodes if h.kind == "fornext" and unparse(h.ast.iter) == dn]
        res = [x for x in cr.calls(attr="result") if loops and x in cr.reachable([m for m, l in loops[0].succ if l == "T"], avoid=[cr.loop_head(loops[0].ast)], exc=False, include_src=True)]
        drops = [x for x in cr.nodes if x.kind == "store" and isinstance(x.stmt, ast.AugAssign) and unparse(x.stmt.value) == dn]
        okr = len(loops) == 1 and bool(res) and bool(drops) and all(cr.dominates(loops[0], d) for d in drops) \
            and all(unparse(x.ast.func.value) == unparse(loops[0].ast.target) for x in res)
    ctx.ob(R, fr, fr.node, okr, "the sender routine drops finished request tasks without retrieving their result: a task that died is forgotten, the sender lives on "
                                "and the batches that task was responsible for are never resolved", text="done-tasks-checked")
    fi = ctx.fn(f"{SENDER}.start")
    c = ctx.cfg(fi)
    ct = [n for n in c.calls(attr="create_task") if n.ast.args and "_sender_routine" in unparse(n.ast.args[0])]
    ct = ctx.one(ct, "create_task(self._sender_routine())")
    cb = [n for n in c.calls(attr="add_done_callback") if unparse(arg_of(n.ast, 0)) == "self._fail_all"]
    ctx.ob(R, fi, ct, len(cb) == 1, "_fail_all is not attached to the sender task", text="attached")
    if len(cb) == 1:
        ok, w = ctx.no_suspension_between(fi, ct, cb[0])
        ctx.ob(R, fi, cb[0], ok and c.exit not in c.reachable([ct], avoid=[cb[0]], exc=False), "sender task can die before _fail_all is attached", text="attached-atomically")
        ctx.ob(R, fi, cb[0], unparse(cb[0].ast.func.value) == "self._sender_task" and isinstance(ct.stmt, ast.Assign) and unparse(ct.stmt.targets[0]) == "self._sender_task",
               "callback attached to a different task", text="attached-to-task")
    ff = ctx.fn(f"{SENDER}._fail_all")
    cf = ctx.cfg(ff)
    fa = cf.calls(attr="fail_all")
    fe = cf.calls(attr="fatal_error")
    exc_defs = [d for d in cf.nodes if d.kind == "store" and isinstance(d.ast, ast.Name) and isinstance(def_value(d), ast.Call) and call_attr(def_value(d)) == "exception"]
    ok = len(fa) == 1 and len(fe) == 1 and len(exc_defs) == 1
    ctx.ob(R, ff, ff.node, ok, "_fail_all lacks fail_all / fatal_error / task.exception()", text="fail-all-shape")
    if ok:
        en = exc_defs[0].ast.id
        ctx.ob(R, ff, fa[0], unparse(arg_of(fa[0].ast, 0)) == en and unparse(arg_of(fe[0].ast, 0)) == en, "the task's exception is not what is propagated", text="exc-flow")
        # an exception raised inside a done-callback goes to the loop's exception handler and nowhere else: whatever the callback calls
        # before failing the batches can silently prevent it (TransactionManager.fatal_error dereferences the transaction waiter, which
        # an idempotent, non-transactional producer never has).  Only the task's own inspection methods and logging may come first.
        tp_ = ff.params()[1]
        before = [x for x in cf.nodes if x.kind == "call" and x is not fa[0] and cf.path_exists(x, fa[0], exc=False)]
        harmless = lambda x: (isinstance(x.ast.func, ast.Attribute) and ((unparse(x.ast.func.value) == tp_ and x.ast.func.attr in ("cancelled", "exception", "done"))
                                                                         or unparse(x.ast.func.value) in ("log", "logger")))
        badc = [x for x in before if not harmless(x)]
        ctx.ob(R, ff, fa[0], not badc, f"`{badc[0].text()[5:60] if badc else ''}` runs before the batches are failed: if it raises, every delivery future stays pending and "
                                       "nobody is told (exceptions of a done-callback are only logged by the loop)", text="batches-failed-first")
        from ..rulekit import none_tests
        tt = none_tests(cf, en)
        ctx.ob(R, ff, fa[0], any(cf.dominated_by_branch(t, lnn, fa[0]) for t, _ln, lnn in tt) and
               not any(isinstance(a, ast.If) and "transactional" in unparse(a.test) for a, r in fa[0].within), "fail_all not called for every sender failure", text="fail-all-guard")
        ctx.ob(R, ff, fa[0], unparse(fa[0].ast.func.value) == "self._message_accumulator", "fail_all on wrong object", text="fail-all-recv")
    fx = ctx.fn(f"{ACC}.fail_all")
    cx = ctx.cfg(fx)
    fl = cx.calls(attr="failure")
    iters = sorted({";".join(unparse(a.iter) for a, r in n.within if isinstance(a, ast.For)) for n in fl})
    ctx.ob(R, fx, fx.node, iters == ["self._batches.values();batches", "self._pending_batches"], f"fail_all iterates {iters}", text="covers-both")
    ex = cx.stores(attr="_exception")
    ctx.ob(R, fx, fx.node, len(ex) == 1 and unparse(ex[0].stmt.value) == fx.params()[1] and cx.exit not in cx.reachable([cx.entry], avoid=set(ex), exc=False),
           "fail_all does not record the exception for later send() calls", text="stores-exception")
    for f in fl:
        ctx.ob(R, fx, f, unparse(arg_of(f.ast, 0)) == fx.params()[1], "batch failed with a different exception", text="failure-arg")
    # guards before enqueue
    for q in (f"{ACC}.add_message", f"{ACC}.add_batch"):
        fi = ctx.fn(q)
        c = ctx.cfg(fi)
        enq = c.calls(attr="_append_batch") + [n for n in c.calls(attr="append") if dotted(n.ast.func.value) not in (None,) and call_attr(n.ast) == "append" and len(n.ast.args) >= 2]
        ctx.floor(enq, 1, f"enqueue sites in {fi.name}")
        for kind, pred in (("closed", lambda e: unparse(e) == "self._closed"),
                           ("exception", lambda e: is_none_test(e, negate=True) is not None and unparse(is_none_test(e, negate=True)) == "self._exception")):
            tests = [t for t in c.nodes if t.kind == "test" and pred(t.ast)]
            ctx.ob(R, fi, fi.node, bool(tests), f"{fi.name} never tests {kind}", text=f"has-{kind}-test")
            for e in enq:
                # from the entry and from every suspension point, each path to the enqueue passes a test
                # (whose true branch raises, checked below)
                ok = True
                why = ""
                for s in [c.entry] + ctx.suspension_nodes(fi):
                    if e in c.reachable([s], avoid=set(tests)):
                        ok = False
                        why = f"path from {s!r} reaches the enqueue without the test"
                        break
                ctx.ob(R, fi, e, ok, f"{fi.name}: `{kind}` is not re-tested after the last suspension before {unparse(e.ast)[:40]} ({why})", text=f"{kind}-before:{call_attr(e.ast)}")
            for t in tests:
                tb = c.reachable([m for m, l in t.succ if l == "T"], exc=True, include_src=True)
                ctx.ob(R, fi, t, any(n.kind == "raise" for n in tb) and not any(n in tb for n in enq), f"{kind} test does not raise", text=f"{kind}-raises")



# ---- bookkeeping futures stay under the accumulator's control -------------------------------------------------------------------
_FUT_METHODS = {"done", "set_result", "set_exception", "exception", "add_done_callback", "remove_done_callback", "cancelled", "result"}
_OWNED = ("future", "_drain_waiter")


def _parent(n):
    return getattr(n, "_parent", None)


def rule_future_ownership(ctx):
    R = "future-ownership"
    ctx.rep.rule(R, "MessageBatch.future and MessageBatch._drain_waiter are the accumulator's bookkeeping (flush, flush_for_commit, "
                    "the pending-batch registry wait on them): every read of one in the producer package is a state query/resolution "
                    "(.done/.set_result/...), is wrapped in asyncio.shield() before it leaves, or only reaches asyncio.wait() (which never "
                    "cancels its arguments) -- never a bare return / await / gather / wait_for, through which a caller's cancellation or "
                    "timeout would cancel the bookkeeping future while the batch is still unacknowledged")
    n_sites = 0
    for q, fi in sorted(ctx.repo.funcs.items()):
        if not q.startswith("aiokafka.producer."):
            continue
        own = list(walk_own(fi.node))
        aliases = {}     # local name -> the attribute read it was bound from
        for n in own:
            if isinstance(n, ast.Assign) and len(n.targets) == 1 and isinstance(n.targets[0], ast.Name) \
                    and isinstance(n.value, ast.Attribute) and n.value.attr in _OWNED:
                aliases[n.targets[0].id] = n.value
        sites = []
        for n in own:
            if isinstance(n, ast.Attribute) and n.attr in _OWNED and isinstance(n.ctx, ast.Load):
                # `self.future` of other classes (e.g. a handler's own future) is not a MessageBatch future
                if fi.owner_cls is not None and unparse(n.value) == "self" and not fi.owner_cls.qualname.endswith(".MessageBatch"):
                    continue
                sites.append(n)
            elif isinstance(n, ast.Name) and n.id in aliases and isinstance(n.ctx, ast.Load):
                sites.append(n)
        for n in sites:
            n_sites += 1
            why = _future_use(fi, own, n)
            ctx.ob(R, fi, n, why is None, f"bookkeeping future `{unparse(n)}` {why}", text=f"use:{unparse(n)}:{_use_kind(n)}")
    ctx.anchor(n_sites >= 12, f"reads of MessageBatch.future/_drain_waiter in the producer package: {n_sites} < 12")


def _use_kind(n):
    p = _parent(n)
    if isinstance(p, ast.Attribute):
        return "." + p.attr
    if isinstance(p, ast.Call):
        return "arg:" + unparse(p.func)
    return type(p).__name__


def _is_call_to(p, names):
    return isinstance(p, ast.Call) and unparse(p.func) in names


def _future_use(fi, own, n):
    """None when the read is under the accumulator's control, else what is wrong with it."""
    p = _parent(n)
    if isinstance(p, ast.Attribute) and p.value is n:
        return None if p.attr in _FUT_METHODS else f"is used through .{p.attr}"
    if _is_call_to(p, ("asyncio.shield",)) and n in p.args:
        return None
    if isinstance(p, ast.Assign) and p.value is n and len(p.targets) == 1 and isinstance(p.targets[0], ast.Name):
        return None      # alias: its uses are sites of their own
    if isinstance(p, ast.Assert) or isinstance(p, ast.Compare):
        return None
    # collected into a local container that only ever reaches asyncio.wait(...)
    cont = None
    if isinstance(p, (ast.ListComp, ast.SetComp)) and p.elt is n:
        cont = p
    elif isinstance(p, (ast.List, ast.Set, ast.Tuple)) and n in p.elts:
        cont = p
    elif isinstance(p, ast.Call) and isinstance(p.func, ast.Attribute) and p.func.attr in ("append", "add") and n in p.args and isinstance(p.func.value, ast.Name):
        return _container_only_waited(own, p.func.value.id)
    if cont is not None:
        pp = _parent(cont)
        if _is_call_to(pp, ("asyncio.wait",)) and pp.args and pp.args[0] is cont:
            return None
        if isinstance(pp, ast.Assign) and len(pp.targets) == 1 and isinstance(pp.targets[0], ast.Name):
            return _container_only_waited(own, pp.targets[0].id)
        if isinstance(pp, ast.AugAssign) and isinstance(pp.target, ast.Name):
            return _container_only_waited(own, pp.target.id)
        return "is collected into a container that is not only waited on"
    if isinstance(p, ast.Return):
        return "is returned bare: the caller's cancellation/timeout cancels it (wrap in asyncio.shield)"
    if isinstance(p, ast.Await):
        return "is awaited bare: cancelling the awaiting task cancels it"
    if isinstance(p, ast.Starred) or isinstance(p, ast.Call):
        return f"is passed to {unparse(p.func)[:40] if isinstance(p, ast.Call) else 'a call'}(), which may cancel it"
    return f"escapes through {type(p).__name__}"


def _container_only_waited(own, name):
    for x in own:
        if isinstance(x, ast.Name) and x.id == name and isinstance(x.ctx, ast.Load):
            p = _parent(x)
            if isinstance(p, ast.Attribute) and p.attr in ("append", "add", "update", "extend"):
                continue
            if _is_call_to(p, ("asyncio.wait",)) and p.args and p.args[0] is x:
                continue
            if isinstance(p, (ast.If, ast.While)) and p.test is x:
                continue
            if isinstance(p, ast.UnaryOp) and isinstance(p.op, ast.Not):
                continue
            if isinstance(p, ast.BoolOp):
                continue
            if _is_call_to(p, ("len", "bool")):
                continue
            return f"is collected into `{name}`, which is used by `{unparse(p)[:60]}` (only asyncio.wait() may receive it)"
    return None



def rule_linger_wakeup(ctx):
    R = "flush"
    fi = ctx.fn(f"{ACC}.drain_by_nodes")
    c = ctx.cfg(fi)
    # a batch left behind because its linger time has not elapsed is only sent if something wakes the sender later: whenever the drain
    # computed a remaining linger time it arms the wake-up timer -- whatever else is true (closing, nothing drained, ...): flush(),
    # close() and stop() wait for exactly those batches
    lt = [t for t in c.nodes if t.kind == "test" and unparse(t.ast) == "remaining_linger_time" and not c.enclosing(t, types=(ast.For,), role="body")]
    cl = [n for n in c.nodes if n.kind == "call" and call_attr(n.ast) == "call_later"]
    ok = len(lt) == 1 and len(cl) == 1
    if ok:
        armed = c.reachable([m for m, l in lt[0].succ if l == "T"], avoid=set(cl), exc=False, include_src=True)
        ok = c.exit not in armed
        # and the test itself is on every path out of the partition loop
        loops = [h for h in c.nodes if h.kind == "fornext"]
        outs = [m for h in loops for m, l in h.succ if l == "F"]
        ok = ok and bool(outs) and c.exit not in c.reachable(outs, avoid=set(lt), exc=False, include_src=True)
        a = cl[0].ast.args
        ok = ok and len(a) >= 2 and unparse(a[0]) == "remaining_linger_time" and unparse(a[1]).endswith("_wakeup")
    ctx.ob(R, fi, fi.node, ok, "drain_by_nodes can leave a lingering batch in the accumulator without arming the wake-up timer for its remaining linger time: "
                               "nothing sends it later and flush()/stop() wait for ever", text="linger-wakeup-armed")
    sk = [t for t in c.nodes if t.kind == "test" and unparse(t.ast) == "batch_remaining_linger"]
    ok2 = len(sk) == 1
    if ok2:
        arm = c.reachable([m for m, l in sk[0].succ if l == "T"], avoid=[x for x in c.nodes if x.kind == "loop"], exc=False, include_src=True)
        ok2 = any(n.kind == "store" and unparse(n.ast) == "remaining_linger_time" for n in arm) and not any(n.kind == "call" and call_attr(n.ast) == "_pop_batch" for n in arm)
    ctx.ob(R, fi, fi.node, ok2, "a batch skipped for lingering does not contribute its remaining time to the wake-up", text="linger-time-recorded")


def run(ctx):
    rep = ctx.rep
    rep.explanation = ("C02 structural clauses: once-only resolution guards, no loop-carried state in per-record metadata, typestate of a "
                       "popped batch (filed / acknowledged / failed / requeued exactly once on every path), reply shape per produce version "
                       "against the schema table, flush/close/stop coverage and ordering, sender-death propagation.")
    rule_once(ctx)
    rule_per_record(ctx)
    rule_all_resolved(ctx)
    c01.rule_classify(ctx)
    c01.rule_no_expire(ctx)
    rule_reply_shape(ctx)
    rule_flush(ctx)
    rule_linger_wakeup(ctx)
    rule_fail_all(ctx)
    rule_future_ownership(ctx)
    from .common import rule_shared_metadata_future
    rule_shared_metadata_future(ctx, "fail-all")
    from .common import rule_instance_state
    rule_instance_state(ctx, ("aiokafka.producer.",))
    rep.nd("'within bounded time after faults cease' (liveness)")
    rep.nd("that the offset the broker reports is where the record really sits")
