"""Static table of the declarative Kafka API message classes (aiokafka.protocol.*).

Pure `ast`: a small evaluator for the expression forms the protocol modules use at
class level -- Schema(...), Array(...), String('utf-8'), type names, `X.SCHEMA`
aliases, `A | B | C` unions of struct classes, Request[Alias] bases.  Nothing is imported.

Type representation (JSON-able):
  ('prim', 'Int32') | ('array', elem, compact: bool) | ('schema', [(name, type), ...])
"""
from __future__ import annotations

import ast

from .loader import AnalysisError, unparse

PRIMS = {"Int8", "Int16", "Int32", "UInt32", "Int64", "Float64", "Boolean", "Bytes", "CompactBytes",
         "TaggedFields", "UnsignedVarInt32", "VarInt32", "VarInt64"}
COMPACT = {"CompactString", "CompactBytes", "CompactArray"}


class PClass:
    def __init__(self, name, node, module):
        self.name = name
        self.node = node
        self.module = module
        self.bases = []
        self.attrs = {}      # name -> ast expr
        self.generic = None  # ast expr inside Request[...]
        for b in node.bases:
            if isinstance(b, ast.Subscript):
                self.bases.append(unparse(b.value))
                self.generic = b.slice
            else:
                self.bases.append(unparse(b))
        for s in node.body:
            if isinstance(s, ast.Assign) and len(s.targets) == 1 and isinstance(s.targets[0], ast.Name):
                self.attrs[s.targets[0].id] = s.value
            elif isinstance(s, ast.AnnAssign) and isinstance(s.target, ast.Name) and s.value is not None:
                self.attrs[s.target.id] = s.value
        self.methods = {s.name: s for s in node.body if isinstance(s, (ast.FunctionDef, ast.AsyncFunctionDef))}

    @property
    def lineno(self):
        return self.node.lineno


class ProtoTable:
    def __init__(self, repo, pkg="aiokafka.protocol"):
        self.repo = repo
        self.mods = {n: m for n, m in repo.modules.items() if n == pkg or n.startswith(pkg + ".")}
        if not self.mods:
            raise AnalysisError("protocol package not found")
        self.classes = {}       # (modname, clsname) -> PClass
        self.by_name = {}
        self.modenv = {}        # modname -> {name: ('class', PClass) | ('expr', ast, modname) | ('import', modname, name)}
        for mn, m in self.mods.items():
            env = {}
            for s in m.tree.body:
                self._top(s, mn, m, env)
            self.modenv[mn] = env
        self._schema_cache = {}

    def _top(self, s, mn, m, env):
        if isinstance(s, ast.ClassDef):
            pc = PClass(s.name, s, m)
            self.classes[(mn, s.name)] = pc
            self.by_name.setdefault(s.name, []).append(pc)
            env[s.name] = ("class", pc)
        elif isinstance(s, ast.Assign) and len(s.targets) == 1 and isinstance(s.targets[0], ast.Name):
            env[s.targets[0].id] = ("expr", s.value, mn)
        elif isinstance(s, ast.AnnAssign) and isinstance(s.target, ast.Name) and s.value is not None:
            env[s.target.id] = ("expr", s.value, mn)
        elif isinstance(s, ast.ImportFrom):
            base = s.module or ""
            if s.level:
                parts = mn.split(".")
                if not m.path.endswith("__init__.py"):
                    parts = parts[:-1]
                parts = parts[: len(parts) - (s.level - 1)]
                base = ".".join(parts + ([s.module] if s.module else []))
            for a in s.names:
                env[a.asname or a.name] = ("import", base, a.name)
        elif isinstance(s, (ast.If, ast.Try)):
            for x in getattr(s, "body", []):
                self._top(x, mn, m, env)

    # ---- name resolution ----------------------------------------------------
    def lookup(self, mn, name, depth=0):
        if depth > 8:
            return None
        env = self.modenv.get(mn)
        if env is None:
            return None
        b = env.get(name)
        if b is None:
            return None
        if b[0] == "import":
            return self.lookup(b[1], b[2], depth + 1) or ("external", b[1], b[2])
        return b

    def cls(self, mn, name):
        b = self.lookup(mn, name)
        if b is not None and b[0] == "class":
            return b[1]
        return None

    def mro(self, pc):
        out, seen = [], set()

        def go(c):
            if c is None or id(c) in seen:
                return
            seen.add(id(c))
            out.append(c)
            for b in c.bases:
                go(self.cls(c.module.name, b.split(".")[-1]))

        go(pc)
        return out

    def attr_expr(self, pc, attr):
        for c in self.mro(pc):
            if attr in c.attrs:
                return c.attrs[attr], c
        return None, None

    def is_subclass(self, pc, base_name):
        return any(c.name == base_name for c in self.mro(pc))

    # ---- evaluation -----------------------------------------------------------
    def const(self, pc, attr):
        e, owner = self.attr_expr(pc, attr)
        if e is None:
            return None
        return self.eval_const(e, owner.module.name)

    def eval_const(self, e, mn, depth=0):
        if isinstance(e, ast.Constant):
            return e.value
        if isinstance(e, ast.UnaryOp) and isinstance(e.op, ast.USub):
            v = self.eval_const(e.operand, mn, depth + 1)
            return -v if isinstance(v, (int, float)) else None
        if isinstance(e, ast.Name) and depth < 6:
            b = self.lookup(mn, e.id)
            if b is not None and b[0] == "expr":
                return self.eval_const(b[1], b[2], depth + 1)
        if isinstance(e, ast.Attribute) and isinstance(e.value, ast.Name) and depth < 6:
            pc = self.cls(mn, e.value.id)
            if pc is not None:
                x, owner = self.attr_expr(pc, e.attr)
                if x is not None:
                    return self.eval_const(x, owner.module.name, depth + 1)
        return None

    def response_type(self, pc):
        e, owner = self.attr_expr(pc, "RESPONSE_TYPE")
        if e is None:
            return None
        if isinstance(e, ast.Name):
            return self.cls(owner.module.name, e.id)
        if isinstance(e, ast.Attribute):
            return self.cls(owner.module.name, e.attr)
        return None

    def schema(self, pc):
        k = id(pc)
        if k not in self._schema_cache:
            e, owner = self.attr_expr(pc, "SCHEMA")
            if e is None:
                self._schema_cache[k] = None
            else:
                self._schema_cache[k] = self.eval_type(e, owner.module.name)
        return self._schema_cache[k]

    def eval_type(self, e, mn, depth=0):
        if depth > 12:
            raise AnalysisError("protocol type expression too deep")
        if isinstance(e, ast.Name):
            if e.id in PRIMS:
                b = self.lookup(mn, e.id)
                return ("prim", e.id)
            b = self.lookup(mn, e.id)
            if b is None:
                raise AnalysisError(f"{mn}: unresolved protocol name {e.id}")
            if b[0] == "expr":
                return self.eval_type(b[1], b[2], depth + 1)
            if b[0] == "class":
                if b[1].name in ("String", "CompactString"):
                    return ("prim", b[1].name)
                return ("prim", b[1].name)
            raise AnalysisError(f"{mn}: cannot evaluate {e.id}")
        if isinstance(e, ast.Attribute):
            if e.attr == "SCHEMA" and isinstance(e.value, ast.Name):
                pc = self.cls(mn, e.value.id)
                if pc is None:
                    raise AnalysisError(f"{mn}: unresolved class {e.value.id}")
                return self.schema(pc)
            raise AnalysisError(f"{mn}: cannot evaluate {unparse(e)}")
        if isinstance(e, ast.Call):
            fn = unparse(e.func).split(".")[-1]
            if fn in ("String", "CompactString"):
                return ("prim", fn)
            if fn == "Schema":
                return ("schema", [self._field(a, mn, depth) for a in e.args])
            if fn in ("Array", "CompactArray"):
                compact = fn == "CompactArray"
                if len(e.args) == 1 and not isinstance(e.args[0], ast.Tuple):
                    return ("array", self.eval_type(e.args[0], mn, depth + 1), compact)
                return ("array", ("schema", [self._field(a, mn, depth) for a in e.args]), compact)
            raise AnalysisError(f"{mn}: cannot evaluate call {unparse(e)[:60]}")
        raise AnalysisError(f"{mn}: cannot evaluate {unparse(e)[:60]}")

    def _field(self, a, mn, depth):
        if not (isinstance(a, ast.Tuple) and len(a.elts) == 2 and isinstance(a.elts[0], ast.Constant)):
            raise AnalysisError(f"{mn}: schema field is not a (name, type) pair: {unparse(a)[:60]}")
        return (a.elts[0].value, self.eval_type(a.elts[1], mn, depth + 1))

    # ---- builders -------------------------------------------------------------
    def builders(self):
        """Request builder classes: subclasses of Request with a generic argument."""
        out = []
        for pc in self.classes.values():
            if pc.generic is not None and any(b.split(".")[-1] == "Request" for b in pc.bases):
                out.append(pc)
        return sorted(out, key=lambda p: (p.module.name, p.lineno))

    def builder_classes(self, pc):
        """Ordered list of request-struct PClass a builder can select (its _CLASSES)."""
        return self._union(pc.generic, pc.module.name)

    def _union(self, e, mn, depth=0):
        if depth > 8:
            raise AnalysisError("union alias too deep")
        if isinstance(e, ast.BinOp) and isinstance(e.op, ast.BitOr):
            return self._union(e.left, mn, depth) + self._union(e.right, mn, depth)
        if isinstance(e, ast.Name):
            b = self.lookup(mn, e.id)
            if b is None:
                raise AnalysisError(f"{mn}: unresolved {e.id}")
            if b[0] == "class":
                return [b[1]]
            if b[0] == "expr":
                return self._union(b[1], b[2], depth + 1)
        raise AnalysisError(f"{mn}: cannot evaluate struct union {unparse(e)[:60]}")

    def request_structs(self):
        return [pc for pc in self.classes.values() if self.is_subclass(pc, "RequestStruct") and pc.name != "RequestStruct"]

    def response_structs(self):
        return [pc for pc in self.classes.values() if self.is_subclass(pc, "Response") and pc.name != "Response"]


def sig(t):
    """Compact wire signature of a type tree: names dropped."""
    if t is None:
        return "?"
    if t[0] == "prim":
        return t[1]
    if t[0] == "array":
        return ("c[" if t[2] else "[") + sig(t[1]) + "]"
    if t[0] == "schema":
        return " ".join(sig(x) for _, x in t[1])
    return "?"


def field_names(t):
    if t and t[0] == "schema":
        return [n for n, _ in t[1]]
    return []


def find_field(t, path):
    """Descend a schema by field names, through arrays. Returns the type or None."""
    cur = t
    for p in path:
        while cur is not None and cur[0] == "array":
            cur = cur[1]
        if cur is None or cur[0] != "schema":
            return None
        nxt = None
        for n, x in cur[1]:
            if n == p:
                nxt = x
        cur = nxt
        if cur is None:
            return None
    return cur


def elem_schema(t):
    while t is not None and t[0] == "array":
        t = t[1]
    return t
