#!/venv/bin/python
"""Print the markdown table of DESIGN.md section 10 from seeded/*/meta.json."""
import glob
import json
import os

VERIF = os.path.dirname(os.path.dirname(os.path.abspath(__file__)))
NOTES = json.load(open(os.path.join(VERIF, "seeded", "NOTES.json"))) if os.path.exists(os.path.join(VERIF, "seeded", "NOTES.json")) else {}
print("| Seed | Property | Change (what it needs to manifest) | Caught by (rule) | Note |")
print("|---|---|---|---|---|")
for meta in sorted(glob.glob(os.path.join(VERIF, "seeded", "*", "meta.json"))):
    sid = os.path.basename(os.path.dirname(meta))
    m = json.load(open(meta))
    v = m.get("verification", {})
    det = v.get("detected_by", [])
    rules = []
    for p in det:
        for f in v.get("checks", {}).get(p, {}).get("fails", [])[:1]:
            parts = f.split()
            if len(parts) > 1 and parts[0] == "FAIL":
                rules.append(f"{p} {parts[1]}")
    summ = (m.get("file", "") + ": " + m.get("summary", "")).replace("\n", " ").replace("|", "/")
    summ = summ[:230] + ("…" if len(summ) > 230 else "")
    caught = ", ".join(rules) if rules else ("**missed**" if not v.get("analysis_errors") else "analysis-error " + ",".join(v["analysis_errors"]))
    print(f"| {sid} | {m.get('property')} | {summ} | {caught} | {NOTES.get(sid, '')} |")
