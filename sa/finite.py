"""Exhaustive evaluation of a small pure function over a finite domain, on its AST.

Supports the fragment used by classifier-style functions: if/elif/else, return,
==, !=, is, is not, in / not in over list/tuple/set literals, and/or/not, enum
members written `cls.X` / `ClassName.X`, integer constants and comparisons.
Anything else raises AnalysisError (the rule then fails closed).
"""
from __future__ import annotations

import ast

from .loader import AnalysisError, unparse


class _Return(Exception):
    def __init__(self, v):
        self.v = v


class Enum:
    def __init__(self, name):
        self.name = name

    def __eq__(self, o):
        return isinstance(o, Enum) and o.name == self.name

    def __hash__(self):
        return hash(self.name)

    def __repr__(self):
        return self.name


def ev(e, env, enum_prefixes):
    if isinstance(e, ast.Constant):
        return e.value
    if isinstance(e, ast.Name):
        if e.id in env:
            return env[e.id]
        raise AnalysisError(f"finite-eval: unbound {e.id}")
    if isinstance(e, ast.Attribute):
        if isinstance(e.value, ast.Name) and e.value.id in enum_prefixes:
            return Enum(e.attr)
        t = unparse(e)
        if t in env:
            return env[t]
        raise AnalysisError(f"finite-eval: cannot evaluate {t}")
    if isinstance(e, (ast.List, ast.Tuple, ast.Set)):
        return [ev(x, env, enum_prefixes) for x in e.elts]
    if isinstance(e, ast.UnaryOp):
        v = ev(e.operand, env, enum_prefixes)
        if isinstance(e.op, ast.Not):
            return not v
        if isinstance(e.op, ast.USub):
            return -v
    if isinstance(e, ast.BinOp):
        import operator
        fn = {ast.Add: operator.add, ast.Sub: operator.sub, ast.Mult: operator.mul, ast.FloorDiv: operator.floordiv, ast.Mod: operator.mod,
              ast.Pow: operator.pow, ast.BitAnd: operator.and_, ast.BitOr: operator.or_, ast.BitXor: operator.xor, ast.LShift: operator.lshift,
              ast.RShift: operator.rshift}.get(type(e.op))
        a, b = ev(e.left, env, enum_prefixes), ev(e.right, env, enum_prefixes)
        if fn is not None and all(isinstance(x, int) and not isinstance(x, bool) for x in (a, b)) and not (isinstance(e.op, ast.Pow) and (b < 0 or b > 64)) \
                and not (isinstance(e.op, (ast.FloorDiv, ast.Mod)) and b == 0) and not (isinstance(e.op, (ast.LShift, ast.RShift)) and not 0 <= b <= 128):
            return fn(a, b)
        if isinstance(e.op, ast.Add) and isinstance(a, list) and isinstance(b, list):
            return a + b
        raise AnalysisError(f"finite-eval: unsupported arithmetic {unparse(e)[:60]}")
    if isinstance(e, ast.BoolOp):
        if isinstance(e.op, ast.And):
            v = True
            for x in e.values:
                v = ev(x, env, enum_prefixes)
                if not v:
                    return v
            return v
        v = False
        for x in e.values:
            v = ev(x, env, enum_prefixes)
            if v:
                return v
        return v
    if isinstance(e, ast.Compare):
        left = ev(e.left, env, enum_prefixes)
        for op, r in zip(e.ops, e.comparators):
            right = ev(r, env, enum_prefixes)
            if isinstance(op, (ast.Eq, ast.Is)):
                ok = left == right
            elif isinstance(op, (ast.NotEq, ast.IsNot)):
                ok = left != right
            elif isinstance(op, ast.In):
                ok = left in right
            elif isinstance(op, ast.NotIn):
                ok = left not in right
            elif isinstance(op, ast.Lt):
                ok = left < right
            elif isinstance(op, ast.LtE):
                ok = left <= right
            elif isinstance(op, ast.Gt):
                ok = left > right
            elif isinstance(op, ast.GtE):
                ok = left >= right
            else:
                raise AnalysisError("finite-eval: operator")
            if not ok:
                return False
            left = right
        return True
    if isinstance(e, ast.IfExp):
        return ev(e.body, env, enum_prefixes) if ev(e.test, env, enum_prefixes) else ev(e.orelse, env, enum_prefixes)
    if isinstance(e, ast.Call) and unparse(e.func) in env.get("__calls__", {}):
        return env["__calls__"][unparse(e.func)](*[ev(a, env, enum_prefixes) for a in e.args])
    if isinstance(e, ast.Dict) and all(k is not None for k in e.keys):
        return {_hashable(ev(k, env, enum_prefixes)): ev(v, env, enum_prefixes) for k, v in zip(e.keys, e.values)}
    if isinstance(e, ast.Subscript) and not isinstance(e.slice, ast.Slice):
        base, idx = ev(e.value, env, enum_prefixes), ev(e.slice, env, enum_prefixes)
        try:
            return base[_hashable(idx) if isinstance(base, dict) else idx]
        except (KeyError, IndexError, TypeError):
            raise AnalysisError(f"finite-eval: {unparse(e)[:40]} has no such element for {idx!r}")
    if isinstance(e, ast.Call) and isinstance(e.func, ast.Attribute) and e.func.attr == "get" and 1 <= len(e.args) <= 2 and not e.keywords:
        base = ev(e.func.value, env, enum_prefixes)
        if isinstance(base, dict):
            k = _hashable(ev(e.args[0], env, enum_prefixes))
            return base.get(k, ev(e.args[1], env, enum_prefixes) if len(e.args) == 2 else None)
    if isinstance(e, ast.Call) and unparse(e.func) in ("tuple", "list", "set", "frozenset") and len(e.args) == 1 and not e.keywords:
        return list(ev(e.args[0], env, enum_prefixes))
    raise AnalysisError(f"finite-eval: unsupported expression {unparse(e)[:60]}")


def _hashable(v):
    return tuple(_hashable(x) for x in v) if isinstance(v, list) else v


class _Break(Exception):
    pass


class _Continue(Exception):
    pass


def _bind(target, value, env):
    if isinstance(target, ast.Name):
        env[target.id] = value
    elif isinstance(target, (ast.Tuple, ast.List)) and isinstance(value, (list, tuple)) and len(value) == len(target.elts):
        for t, v in zip(target.elts, value):
            _bind(t, v, env)
    else:
        raise AnalysisError("finite-eval: unsupported loop / assignment target")


def run(stmts, env, enum_prefixes):
    for s in stmts:
        if isinstance(s, ast.Return):
            raise _Return(ev(s.value, env, enum_prefixes) if s.value is not None else None)
        elif isinstance(s, ast.If):
            if ev(s.test, env, enum_prefixes):
                run(s.body, env, enum_prefixes)
            else:
                run(s.orelse, env, enum_prefixes)
        elif isinstance(s, ast.Assign) and len(s.targets) == 1 and isinstance(s.targets[0], ast.Name):
            env[s.targets[0].id] = ev(s.value, env, enum_prefixes)
        elif isinstance(s, ast.Assign) and len(s.targets) == 1 and isinstance(s.targets[0], ast.Attribute) and unparse(s.targets[0]) .startswith("self."):
            # attributes of self live in the environment under their dotted text
            env[unparse(s.targets[0])] = ev(s.value, env, enum_prefixes)
        elif isinstance(s, ast.AugAssign) and (isinstance(s.target, ast.Name) or (isinstance(s.target, ast.Attribute) and unparse(s.target).startswith("self."))):
            cur = ast.copy_location(ast.Name(id=s.target.id, ctx=ast.Load()), s) if isinstance(s.target, ast.Name) else \
                ast.copy_location(ast.Attribute(value=s.target.value, attr=s.target.attr, ctx=ast.Load()), s)
            env[unparse(s.target)] = ev(ast.BinOp(left=cur, op=s.op, right=s.value), env, enum_prefixes)
        elif isinstance(s, ast.AnnAssign) and s.value is not None and isinstance(s.target, ast.Name):
            env[s.target.id] = ev(s.value, env, enum_prefixes)
        elif isinstance(s, ast.Expr) and isinstance(s.value, ast.Constant):
            continue
        elif isinstance(s, ast.Pass):
            continue
        elif isinstance(s, ast.For) and not s.orelse:
            # a loop over a finite literal / evaluated table, unrolled
            seq = ev(s.iter, env, enum_prefixes)
            if not isinstance(seq, (list, tuple)):
                raise AnalysisError("finite-eval: for-loop over a non-literal sequence")
            for item in seq:
                _bind(s.target, item, env)
                try:
                    run(s.body, env, enum_prefixes)
                except _Break:
                    break
                except _Continue:
                    continue
        elif isinstance(s, ast.Break):
            raise _Break()
        elif isinstance(s, ast.Continue):
            raise _Continue()
        elif isinstance(s, ast.Assign) and len(s.targets) == 1 and isinstance(s.targets[0], (ast.Tuple, ast.List)):
            _bind(s.targets[0], ev(s.value, env, enum_prefixes), env)
        else:
            raise AnalysisError(f"finite-eval: unsupported statement {type(s).__name__}")


def call(fn_ast, args, enum_prefixes=("cls",)):
    env = dict(args)
    try:
        run(fn_ast.body, env, set(enum_prefixes))
    except _Return as r:
        return r.v
    return None
