"""C10 defect found by ./check C10 (rule error-sentinel): LegacyRecordBatch._read_last_offset was declared `except -1`.

The compiled v0/v1 reader computes the absolute base offset of a compressed v1 wrapper from the offset field of the LAST inner message,
which it reads straight from the (decompressed, untrusted) buffer and returns from a `cdef int64_t ... except -1` function.  `except -1`
without `?` tells the caller that -1 ALWAYS means "an exception is pending": an inner offset of -1 (eight 0xff bytes) made `__iter__`
take its error exit with no exception set, which inside a generator is a silent end of iteration -- the batch decoded to zero records, no
error, while the pure-Python reader returns both records.  With `except? -1` the two implementations agree.
"""
import gzip
import struct
import zlib

from aiokafka.record._crecords.legacy_records import LegacyRecordBatch
from aiokafka.record.legacy_records import _LegacyRecordBatchPy


def _msg_v1(offset, key, value, attrs=0, ts=1000):
    body = struct.pack(">bbq", 1, attrs, ts)
    body += struct.pack(">i", -1) if key is None else struct.pack(">i", len(key)) + key
    body += struct.pack(">i", -1) if value is None else struct.pack(">i", len(value)) + value
    m = struct.pack(">I", zlib.crc32(body) & 0xFFFFFFFF) + body
    return struct.pack(">qi", offset, len(m)) + m


def _decode(cls, last_inner_offset):
    inner = _msg_v1(0, None, b"a") + _msg_v1(last_inner_offset, None, b"b")
    wrapper = _msg_v1(10, None, gzip.compress(inner), attrs=1)
    return [(r.offset, r.value) for r in cls(bytearray(wrapper), 1)]


def test_compiled_reader_does_not_drop_a_batch_whose_last_inner_offset_is_minus_one():
    for last in (-2, -1, 0, 1):
        py = _decode(_LegacyRecordBatchPy, last)
        cy = _decode(LegacyRecordBatch, last)
        assert len(cy) == 2, f"last inner offset {last}: compiled reader yielded {cy}"
        assert cy == py, f"last inner offset {last}: compiled {cy} != pure-Python {py}"
