#!/venv/bin/python
"""Record the local-variable baseline (names in binding order + shape of the first binding) of every function of the
reviewed tree into sa/baseline_locals.json.  Run after every change to /repo that the rules were re-confirmed against."""
import json
import os
import sys

os.environ["VERIF_NO_ALPHA"] = "1"
VERIF = os.path.dirname(os.path.dirname(os.path.abspath(__file__)))
sys.path.insert(0, VERIF)
from sa import alpha  # noqa: E402
from sa.loader import Repo  # noqa: E402
from sa.pyxlower import PyxModule  # noqa: E402

root = sys.argv[1] if len(sys.argv) > 1 else "/repo"
repo = Repo(root)
out = {q: alpha.function_locals(fi.node) for q, fi in repo.funcs.items()}
for f in ("cutil", "default_records", "legacy_records", "memory_records"):
    m = PyxModule(root, f"aiokafka/record/_crecords/{f}.pyx")
    for q, fi in m.funcs.items():
        out[q] = alpha.function_locals(fi.node)
allq = sorted(out)
out = {q: v for q, v in out.items() if v}
out["__functions__"] = allq
out["__params__"] = {q: [a.arg for a in fi.node.args.posonlyargs + fi.node.args.args] for q, fi in repo.funcs.items()}
import ast as _ast  # noqa: E402
out["__attrs__"] = {}
for mname, m in repo.modules.items():
    for c in m.tree.body:
        if isinstance(c, _ast.ClassDef):
            sig = alpha.class_attr_signatures(c)
            if sig:
                out["__attrs__"][f"{mname}.{c.name}"] = sig
from sa import normalise  # noqa: E402
out["__comprehensions__"] = {q: normalise.count_comprehensions(fi.node) for q, fi in repo.funcs.items() if normalise.count_comprehensions(fi.node)}
# call forms of the reviewed tree: callee simple name -> sorted list of the positional-argument counts used (calls with * / ** skipped)
callpos = {}
for q, fi in repo.funcs.items():
    for n in _ast.walk(fi.node):
        if isinstance(n, _ast.Call) and not any(isinstance(a, _ast.Starred) for a in n.args) and not any(k.arg is None for k in n.keywords):
            nm = n.func.id if isinstance(n.func, _ast.Name) else (n.func.attr if isinstance(n.func, _ast.Attribute) else None)
            if nm:
                callpos.setdefault(nm, set()).add(len(n.args))
out["__callpos__"] = {k: sorted(v) for k, v in callpos.items()}
json.dump(out, open(alpha.BASELINE, "w"), indent=0, sort_keys=True)
print("functions with locals:", len(out))
