"""C03 -- consumer yields each visible record once, in offset order, from its position."""
from __future__ import annotations

import ast

from ..loader import AnalysisError, call_attr, call_name, dotted, unparse
from ..prototab import ProtoTable, elem_schema, find_field
from ..rulekit import arg_of, const_value, def_value, is_none_test, local_defs
from ..symeval import Const, Field, SymEval, Tup, Unk, make_struct

FETCHER = "aiokafka.consumer.fetcher.Fetcher"
FR = "aiokafka.consumer.fetcher.FetchResult"
PR = "aiokafka.consumer.fetcher.PartitionRecords"
TPS = "aiokafka.consumer.subscription_state.TopicPartitionState"
SUBS = "aiokafka.consumer.subscription_state.SubscriptionState"
CONSUMER = "aiokafka.consumer.consumer.AIOKafkaConsumer"


def _inner_loop_heads(c, n):
    return [h for h in (c.loop_head(a) for a, r in n.within if isinstance(a, (ast.For, ast.While)) and r == "body") if h is not None]


def effects_in_response_loop(c):
    """State-changing nodes of _proc_fetch_request that act on a partition entry of the response."""
    out = []
    for n in c.nodes:
        if n.kind == "call" and call_attr(n.ast) in ("_set_error", "await_reset", "consumed_to", "reset_to", "_update_preferred_read_replica"):
            out.append(n)
        elif n.kind == "store" and isinstance(n.ast, ast.Subscript) and unparse(n.ast.value) == "self._records":
            out.append(n)
        elif n.kind == "store" and isinstance(n.ast, ast.Attribute) and isinstance(n.ast.value, ast.Name) and n.ast.value.id == "tp_state":
            out.append(n)
        elif n.kind == "call" and call_name(n.ast) in ("FetchResult", "PartitionRecords"):
            out.append(n)
    return out


def rule_accept(ctx):
    R = "accept"
    ctx.rep.rule(R, "_proc_fetch_request: after the only suspension (the send) the assignment is re-tested; every effect of a partition "
                    "entry of the response -- buffering records, recording an error, requesting a reset, moving the position, updating "
                    "highwater/lso -- is unreachable unless the partition still has a valid position equal to the requested offset")
    fi = ctx.fn(f"{FETCHER}._proc_fetch_request")
    c = ctx.cfg(fi)
    eff = effects_in_response_loop(c)
    ctx.floor(eff, 8, "effects in _proc_fetch_request")
    send = ctx.one([n for n in c.nodes if n.kind == "await" and isinstance(n.ast, ast.Await) and isinstance(n.ast.value, ast.Call) and call_attr(n.ast.value) == "send"], "await client.send")
    act = [t for t in c.nodes if t.kind == "test" and unparse(t.ast) == "assignment.active"]
    ctx.ob(R, fi, send, len(act) == 1 and c.path_exists(send, act[0]) and not c.path_exists(act[0], send), "assignment liveness is not re-tested after the fetch returned", text="active-test")
    valid = [t for t in c.nodes if t.kind == "test" and unparse(t.ast) == "tp_state.has_valid_position"]
    same = [t for t in c.nodes if t.kind == "test" and isinstance(t.ast, ast.Compare) and len(t.ast.ops) == 1 and
            {unparse(t.ast.left), unparse(t.ast.comparators[0])} == {"tp_state.position", "fetch_offset"}]
    ctx.ob(R, fi, fi.node, len(valid) >= 1 and len(same) == 1, "no `valid position and position == fetch_offset` test", text="stale-tests")
    # records are buffered (and highwater / lso recorded) only from a partition entry whose error code is NoError; an error is
    # recorded / a reset requested only for another code
    from ..rulekit import must_facts
    mf = must_facts(c)
    okc = {("error_type", "is", "Errors.NoError"), ("error_type", "==", "Errors.NoError")}
    nokc = {("error_type", "is not", "Errors.NoError"), ("error_type", "!=", "Errors.NoError")}
    data_sites = [n for n in c.nodes if (n.kind == "call" and call_name(n.ast) in ("PartitionRecords", "MemoryRecords", "FetchResult"))
                  or (n.kind == "store" and unparse(n.ast) in ("tp_state.highwater", "tp_state.lso"))]
    ctx.anchor(len(data_sites) >= 4, "data sites of a fetch reply (MemoryRecords / PartitionRecords / FetchResult / highwater / lso)")
    for n in data_sites:
        ctx.ob(R, fi, n, bool(mf[n] & okc), f"`{n.text()[:50]}` takes data from a partition entry whose error code was not found to be NoError", text="data-only-noerror:" + n.text()[:40])
    for n in [x for x in c.nodes if x.kind == "call" and call_attr(x.ast) == "await_reset"]:
        ctx.ob(R, fi, n, ("error_type", "is", "Errors.OffsetOutOfRangeError") in mf[n] or ("error_type", "==", "Errors.OffsetOutOfRangeError") in mf[n],
               "a position reset is requested for a reply code other than OFFSET_OUT_OF_RANGE", text="reset-only-out-of-range")
    for e in eff:
        heads = _inner_loop_heads(c, e)
        ok = bool(act) and e not in c.reachable([m for m, l in act[0].succ if l == "F"], include_src=True) and c.dominates(act[0], e)
        ctx.ob(R, fi, e, ok, f"{e.text()[:50]} reachable with a dead assignment", text="active:" + e.text()[:40])
        if act:
            nos, w = ctx.no_suspension_between(fi, act[0], e)
            ctx.ob(R, fi, e, nos, f"suspension {w!r} between the liveness test and {e.text()[:40]}", text="active-atomic:" + e.text()[:40])
        ok = False
        if valid and same:
            st = same[0]
            stale_branch = "T" if isinstance(st.ast.ops[0], ast.NotEq) else "F"
            ok = c.dominates(st, e) or any(c.dominates(v, e) for v in valid)
            if e in c.reachable([m for m, l in st.succ if l == stale_branch], avoid=set(heads), include_src=True):
                ok = False
            for v in valid:
                if c.dominates(v, e) and e in c.reachable([m for m, l in v.succ if l == "F"], avoid=set(heads), include_src=True):
                    ok = False
        ctx.ob(R, fi, e, ok, f"{e.text()[:50]} can act on a response for an offset that is no longer the position (seek/reset in flight)", text="stale:" + e.text()[:40])
    # fetch_offset is the offset that was requested for this very partition
    ds = local_defs(c, "fetch_offset")
    ok = len(ds) == 1 and isinstance(def_value(ds[0]), ast.Subscript) and unparse(def_value(ds[0])) == "fetch_offsets[tp]"
    ctx.ob(R, fi, fi.node, ok, "fetch_offset is not looked up per partition", text="fetch-offset-def")
    st = [n for n in c.nodes if n.kind == "store" and isinstance(n.ast, ast.Subscript) and unparse(n.ast.value) == "fetch_offsets"]
    ok = len(st) == 1 and unparse(st[0].stmt.value) == "offset" and [unparse(a.iter) for a, r in st[0].within if isinstance(a, ast.For)] == ["request.topics", "partitions"]
    ctx.ob(R, fi, fi.node, ok, "requested offsets are not taken from the request that was sent", text="fetch-offsets-source")
    # tp_state is the state of that partition in the assignment the fetch was made for
    ds = local_defs(c, "tp_state")
    ctx.ob(R, fi, fi.node, len(ds) == 1 and unparse(def_value(ds[0])) == "assignment.state_value(tp)", "tp_state is not assignment.state_value(tp)", text="tp-state-def")
    # the buffered result is bound to the same assignment and starts at fetch_offset
    for n in c.calls(name="FetchResult"):
        kws = {k.arg: unparse(k.value) for k in n.ast.keywords}
        ctx.ob(R, fi, n, kws.get("assignment") == "assignment" and kws.get("partition_records") == "partition_records" and unparse(arg_of(n.ast, 0)) == "tp", f"FetchResult bound to {kws}", text="result-binding")
        ctx.ob(R, fi, n, isinstance(n.stmt, ast.Assign) and unparse(n.stmt.targets[0]) == "self._records[tp]", "result stored under another partition", text="result-key")
    for n in c.calls(name="PartitionRecords"):
        a = [unparse(x) for x in n.ast.args]
        ctx.ob(R, fi, n, a[:4] == ["tp", "records", "aborted_transactions", "fetch_offset"], f"PartitionRecords({a[:4]})", text="records-args")
    # too-large skip moves by exactly one
    for n in c.calls(attr="consumed_to"):
        ctx.ob(R, fi, n, unparse(arg_of(n.ast, 0)) == "tp_state.position + 1", "record-too-large skip is not position + 1", text="skip-one")
    fs = ctx.fn(f"{FETCHER}._set_error")
    cs = ctx.cfg(fs)
    st = [n for n in cs.nodes if n.kind == "store" and isinstance(n.ast, ast.Subscript) and unparse(n.ast.value) == "self._records"]
    ctx.ob(R, fs, fs.node, len(st) == 1 and unparse(st[0].ast.slice) == fs.params()[1], "_set_error files the error under another partition", text="set-error-key")


def rule_handout(ctx):
    R = "handout"
    ctx.rep.rule(R, "FetchResult.getone/getall: check_assignment is evaluated before any record is taken; symbolic evaluation of "
                    "check_assignment: it returns True only on the path `assignment active, not paused, position == next_fetch_offset`; "
                    "the position is advanced to next_fetch_offset on every path that took records")
    fc = ctx.fn(f"{FR}.check_assignment")
    se = SymEval(interest=lambda c: c == "<return>")
    paths = se.run_function(fc.node, {"self": Unk("self"), fc.params()[1]: Unk("tp")})
    trues = []
    for p in paths:
        for e in p.events:
            if e.callee == "<return>" and isinstance(e.args[0], Const) and e.args[0].v is True:
                trues.append(p)
            elif e.callee == "<return>" and not isinstance(e.args[0], Const):
                ctx.ob(R, fc, fc.node, False, f"check_assignment returns a non-constant {e.args[0]!r}", text="const-returns")
    ctx.ob(R, fc, fc.node, len(trues) >= 1, "check_assignment never returns True", text="some-true")
    need = {"active": None, "paused": None, "position": None}
    for p in trues:
        conds = dict()
        for t, v in p.conds:
            # `not X` being v is X being (not v)
            while t.startswith("not "):
                t, v = t[4:].strip(), (not v)
                if t.startswith("(") and t.endswith(")"):
                    t = t[1:-1]
            conds[t] = v
        ok_active = any(t.endswith(".active") and v is True for t, v in conds.items())
        ok_paused = any(t.endswith(".paused") and v is False for t, v in conds.items())
        ok_pos = any("next_fetch_offset" in t and "position" in t and ((" != " in t and v is False) or (" == " in t and v is True)) for t, v in conds.items())
        ctx.ob(R, fc, fc.node, ok_active, f"a True path does not require an active assignment: {p.conds}", text="true-needs-active")
        ctx.ob(R, fc, fc.node, ok_paused, f"a True path does not require the partition not to be paused: {p.conds}", text="true-needs-unpaused")
        ctx.ob(R, fc, fc.node, ok_pos, f"a True path does not require position == next_fetch_offset: {p.conds}", text="true-needs-position")
    # a result that refuses to hand out must also give up its buffer: has_more() then turns False, the entry is removed from the fetcher's
    # table and the partition is fetched again; a refused-but-kept buffer blocks the partition for ever (nothing wakes the waiter)
    se2 = SymEval(interest=lambda c: c in ("<return>", "<store>"))
    for p in se2.run_function(fc.node, {"self": Unk("self"), fc.params()[1]: Unk("tp")}):
        rets = [e for e in p.events if e.callee == "<return>"]
        if not rets or not (isinstance(rets[-1].args[0], Const) and rets[-1].args[0].v is False):
            continue
        dropped = any(e.callee == "<store>" and isinstance(e.args[0], Const) and e.args[0].v == "self._partition_records"
                      and isinstance(e.args[1], Const) and e.args[1].v is None for e in p.events)
        ctx.ob(R, fc, fc.node, dropped, f"check_assignment refuses to hand out on the path {p.conds} but keeps the buffer: the fetcher never re-fetches the partition "
                                        "and a consumer blocked in getone() is never woken (delivery stops short of the end of the log)", text="refusal-drops-buffer")
    cc = ctx.cfg(fc)
    # position compared is that of this result's partition
    ds = local_defs(cc, "tp_state")
    ctx.ob(R, fc, fc.node, len(ds) == 1 and unparse(def_value(ds[0])) in ("assignment.state_value(tp)", "self._assignment.state_value(tp)", "assignment.state_value(self._topic_partition)"),
           "state examined is not this partition's", text="state-of-tp")
    ds = [d for d in local_defs(cc, "tp") if d.kind == "store"]
    ctx.ob(R, fc, fc.node, all(unparse(def_value(d)) == "self._topic_partition" for d in ds), "tp rebound to something else", text="tp-rebound")
    # the discarded buffer
    st = cc.stores(attr="_partition_records")
    ctx.ob(R, fc, fc.node, len(st) == 1 and const_value(st[0].stmt.value) is None, "rejected result keeps its buffer (would be handed out later)", text="reject-drops-buffer")
    for m in ("getone", "getall"):
        fi = ctx.fn(f"{FR}.{m}")
        c = ctx.cfg(fi)
        chk = [t for t in c.nodes if t.kind == "test" and isinstance(t.ast, ast.Call) and call_attr(t.ast) == "check_assignment"]
        ctx.ob(R, fi, fi.node, len(chk) == 1, f"{m} does not test check_assignment", text=f"{m}:has-check")
        if len(chk) != 1:
            continue
        takes = [n for n in c.nodes if (n.kind == "call" and call_name(n.ast) == "next") or (n.kind == "foriter" and "_partition_records" in unparse(n.ast.iter))]
        ups = c.calls(attr="_update_position")
        ctx.ob(R, fi, fi.node, bool(takes) and bool(ups), f"{m} takes no records / never updates the position", text=f"{m}:takes")
        for n in takes + ups:
            ok = c.dominates(chk[0], n) and n not in c.reachable([x for x, l in chk[0].succ if l == "F"], include_src=True)
            ctx.ob(R, fi, n, ok, f"{m}: {n.text()[:40]} reachable without a successful check_assignment", text=f"{m}:guarded:{n.kind}")
        # every normal path from a take to the exit passes _update_position
        for n in takes:
            ok = c.exit not in c.reachable([n], avoid=set(ups), exc=False)
            ctx.ob(R, fi, n, ok, f"{m}: records can be returned without moving the position", text=f"{m}:position-after-take")
        ctx.ob(R, fi, fi.node, not ctx.suspension_nodes(fi) and not fi.is_async, f"{m} can be suspended between check and hand-out", text=f"{m}:atomic")
    fu = ctx.fn(f"{FR}._update_position")
    cu = ctx.cfg(fu)
    ct = cu.calls(attr="consumed_to")
    ok = len(ct) == 1 and unparse(arg_of(ct[0].ast, 0)) == "self._partition_records.next_fetch_offset"
    ds = local_defs(cu, "state")
    ok = ok and len(ds) == 1 and unparse(def_value(ds[0])) == "self._assignment.state_value(self._topic_partition)"
    ctx.ob(R, fu, fu.node, ok, "_update_position does not move this partition to next_fetch_offset", text="update-position")
    # once the position has moved, the call must hand out what it took: nothing that can raise (in particular no further take from the
    # records iterator, which validates CRCs and runs the user's deserializers) may run before the return
    for m in ("getone", "getall"):
        fx = ctx.fn(f"{FR}.{m}")
        cx = ctx.cfg(fx)
        ups = cx.calls(attr="_update_position")
        ctx.anchor(len(ups) >= 1, f"_update_position() call in {m}")
        for u in ups:
            after = cx.reachable([u], exc=False)
            risky = [n for n in after if n.kind in ("await", "raise") or (n.kind == "fornext")
                     or (n.kind == "call" and not (unparse(n.ast.func) in ("len", "isinstance") or unparse(n.ast.func).startswith("log.")))]
            ctx.ob(R, fx, u, not risky, f"{m}: after the position moved the call can still run {[unparse(x.ast)[:50] if x.kind != 'fornext' else 'next iteration of ' + unparse(x.ast.iter)[:40] for x in risky[:3]]}; "
                                        "when that raises, the records already taken are dropped with the exception but the position is past them", text=f"{m}:nothing-after-position-moved")
        # ... and the position does not move at all when the take itself raised (corrupt batch, failing deserializer): the records taken so
        # far leave with the exception, the next hand-out must find position != next_fetch_offset, drop the buffer and fetch them again
        takes = [n for n in cx.nodes if (n.kind == "call" and call_name(n.ast) == "next") or (n.kind in ("foriter", "fornext") and "_partition_records" in unparse(n.ast.iter))]
        bad = []
        for t_ in takes:
            for m_, l_ in t_.succ:
                if l_ == "exc" and any(u in cx.reachable([m_], exc=True, include_src=True) for u in ups):
                    bad.append(t_)
        # (the CFG gives `for` iteration no exception edge: the same question asked of the syntax -- a position update in the finally / except
        # part of a try whose body takes records)
        def _is_take(x):
            return (isinstance(x, (ast.For, ast.AsyncFor)) and "_partition_records" in unparse(x.iter)) or \
                   (isinstance(x, ast.Call) and isinstance(x.func, ast.Name) and x.func.id == "next" and x.args and "_partition_records" in unparse(x.args[0]))
        for tr in [x for x in ast.walk(fx.node) if isinstance(x, ast.Try)]:
            if any(_is_take(y) for st_ in tr.body for y in ast.walk(st_)):
                tail = list(tr.finalbody) + [st_ for h in tr.handlers for st_ in h.body]
                for y in [y for st_ in tail for y in ast.walk(st_)]:
                    if isinstance(y, ast.Call) and call_attr(y) == "_update_position":
                        bad.append(y)
        ctx.ob(R, fx, fx.node, not bad, f"{m}: _update_position() also runs when taking records raised (line {bad[0].lineno if bad else 0}: a finally / except arm): the partition "
                                        "moves past records that were never returned", text=f"{m}:position-not-moved-on-error")
    # an exhausted iterator gives up the buffer (has_more() turns False): otherwise the entry is never removed and the partition never re-fetched
    from ..rulekit import none_tests
    fg1 = ctx.fn(f"{FR}.getone")
    c1 = ctx.cfg(fg1)
    tk = [n for n in c1.nodes if n.kind == "call" and unparse(n.ast.func) == "next" and isinstance(n.stmt, ast.Assign) and isinstance(n.stmt.targets[0], ast.Name)]
    ok = len(tk) == 1
    if ok:
        nt1 = none_tests(c1, tk[0].stmt.targets[0].id)
        drop = [x for x in c1.stores(attr="_partition_records") if const_value(getattr(x.stmt, "value", None)) is None and isinstance(x.stmt, ast.Assign)]
        ok = len(nt1) == 1 and bool(drop) and c1.exit not in c1.reachable([m for m, l in nt1[0][0].succ if l == nt1[0][1]], avoid=set(drop), exc=False, include_src=True)
    ctx.ob(R, fg1, fg1.node, ok, "getone: an exhausted buffer is not dropped (has_more() stays True, the partition is never fetched again)", text="getone:exhausted-drops")
    fg2 = ctx.fn(f"{FR}.getall")
    c2 = ctx.cfg(fg2)
    nx = [n for n in c2.nodes if n.kind == "fornext" and unparse(n.ast.iter) == "self._partition_records"]
    drop2 = [x for x in c2.stores(attr="_partition_records") if isinstance(x.stmt, ast.Assign) and const_value(x.stmt.value) is None]
    ok = len(nx) == 1 and bool(drop2) and c2.exit not in c2.reachable([m for m, l in nx[0].succ if l == "F"], avoid=set(drop2), exc=False, include_src=True)
    if not nx:
        # the while/next() form: the arm on which next() yielded nothing
        tk2 = [n for n in c2.nodes if n.kind == "call" and unparse(n.ast.func) == "next" and isinstance(n.stmt, ast.Assign) and isinstance(n.stmt.targets[0], ast.Name)]
        if len(tk2) == 1:
            nt2 = none_tests(c2, tk2[0].stmt.targets[0].id)
            ok = len(nt2) == 1 and bool(drop2) and c2.exit not in c2.reachable([m for m, l in nt2[0][0].succ if l == nt2[0][1]], avoid=set(drop2), exc=False, include_src=True)
    ctx.ob(R, fg2, fg2.node, ok, "getall: an exhausted buffer is not dropped (has_more() stays True, the partition is never fetched again)", text="getall:exhausted-drops")
    # getall: max_records break updates the position as well (covered by position-after-take), returns what it took
    fg = ctx.fn(f"{FR}.getall")
    cg = ctx.cfg(fg)
    rets = [r for r in cg.nodes if r.kind == "return" and isinstance(r.ast.value, ast.Name)]
    apps = [n for n in cg.calls(attr="append")]
    # every return reachable after a record was taken returns the list the records were appended to (one return after the loop, or an
    # early return on the max_records arm as well)
    after = [r for r in cg.nodes if r.kind == "return" and apps and any(cg.path_exists(a_, r, exc=False) for a_ in apps)]
    ctx.ob(R, fg, fg.node, len(rets) >= 1 and len(apps) == 1 and bool(after) and all(isinstance(r.ast.value, ast.Name) and dotted(apps[0].ast.func.value) == r.ast.value.id for r in after),
           "getall does not return exactly the records it took", text="getall-returns-taken")


def rule_exhausted_removed(ctx):
    R = "handout"
    FE = "aiokafka.consumer.fetcher.Fetcher"
    for m, take in (("next_record", "getone"), ("fetched_records", "getall")):
        fi = ctx.fn(f"{FE}.{m}")
        c = ctx.cfg(fi)
        takes = [n for n in c.calls(attr=take)]
        ctx.anchor(len(takes) == 1, f"{take}() call in {m}")
        dels = [n for n in c.nodes if n.kind in ("stmt", "del", "store") and isinstance(n.stmt, ast.Delete) and "self._records[" in unparse(n.stmt)]
        ctx.anchor(len(dels) >= 1, f"del self._records[tp] in {m}")
        # from the take, a path back to the loop head / to the waiter that neither returns the records nor deletes the entry may only
        # be taken when the result still has more to give (has_more() true)
        region = c.reachable([takes[0]], exc=False)
        d_after = [d for d in dels if d in region]
        waits = [n for n in c.nodes if n.kind == "await" and n not in (takes[0],) and n in region and ctx.suspends(fi, n)]
        hm = [t for t in region if t.kind == "test" and "has_more()" in unparse(t.ast)]
        keep_edges = set()
        for t in hm:
            for mm, l in t.succ:
                # the arm on which has_more() is true (a back edge to the loop head carries the label `back`)
                if l not in ("F", "exc"):
                    keep_edges.add((t, mm))
        ok = bool(d_after)
        if ok and m == "next_record":
            from ..rulekit import none_tests
            msg = takes[0].stmt.targets[0].id if isinstance(takes[0].stmt, ast.Assign) and isinstance(takes[0].stmt.targets[0], ast.Name) else None
            nt = none_tests(c, msg) if msg else []
            ok = len(nt) == 1
            if ok:
                t0, l_none, _l = nt[0]
                start = [mm for mm, l in t0.succ if l == l_none]
                # walk the `nothing returned` arm without crossing a delete; only has_more()-true edges may lead on
                seen, work, bad = set(), list(start), None
                while work:
                    n = work.pop()
                    if n in seen or n in d_after:
                        continue
                    seen.add(n)
                    if n.kind in ("loop", "fornext", "await") or n is c.exit:
                        bad = n
                        break
                    for mm, l in n.succ:
                        if l == "exc" or (n, mm) in keep_edges:
                            continue
                        work.append(mm)
                ok = bad is None
        ctx.ob(R, fi, takes[0], ok, f"{m}: a result that yielded nothing is not removed from the fetcher's table (del self._records[tp]) before the loop goes on: "
                                    "the partition is never fetched again", text=f"{m}:exhausted-removed")
        nts = [n for n in c.calls(attr="_notify") if n in region]
        ctx.ob(R, fi, takes[0], bool(nts) and all(any(c.path_exists(d, n, exc=False) for n in nts) for d in d_after),
               f"{m}: removing an exhausted result does not wake the fetch routine", text=f"{m}:exhausted-notifies")


def rule_api_handout(ctx):
    R = "handout"
    for m, src in (("getone", "next_record"), ("getmany", "fetched_records")):
        fi = ctx.fn(f"aiokafka.consumer.consumer.AIOKafkaConsumer.{m}")
        c = ctx.cfg(fi)
        aw = [n for n in c.nodes if n.kind == "await" and isinstance(n.ast, ast.Await) and isinstance(n.ast.value, ast.Call) and call_attr(n.ast.value) == src]
        ctx.anchor(len(aw) == 1, f"await self._fetcher.{src}(...) in {m}")
        after = c.reachable([aw[0]], exc=False)
        # the records are out of the buffer and the position has moved: anything that can raise now loses them
        risky = [n for n in after if (n.kind == "call" and (ctx.resolve_call(fi, n.ast) or unparse(n.ast.func).startswith("self."))) or n.kind == "raise"
                 or (n.kind == "await" and n is not aw[0])]
        ctx.ob(R, fi, aw[0], not risky, f"{m}(): after the records were taken from the fetcher (position already advanced) the call still runs "
                                        f"{[unparse(x.ast)[:50] for x in risky[:3]]}, which can raise: the records are dropped with the exception and never delivered",
               text=f"{m}:nothing-raises-after-handout")
        rets = [n for n in after if n.kind == "return"]
        tgt = unparse(aw[0].stmt.targets[0]) if isinstance(aw[0].stmt, ast.Assign) else None
        if isinstance(aw[0].stmt, ast.Return) and aw[0].stmt.value is aw[0].ast:
            tgt = unparse(aw[0].ast)         # `return await self._fetcher...(...)`
        ctx.ob(R, fi, aw[0], bool(rets) and all(r.ast.value is not None and unparse(r.ast.value) == tgt for r in rets), f"{m}() does not return exactly what the fetcher handed out", text=f"{m}:returns-handout")


def rule_position_writers(ctx):
    R = "position-writers"
    ctx.rep.rule(R, "TopicPartitionState._position is written only by await_reset / consumed_to / reset_to / seek; consumed_to is called "
                    "only from FetchResult._update_position and the record-too-large skip; reset_to only by the fetcher's position update; "
                    "seek only through SubscriptionState.seek")
    allowed = {f"{TPS}.__init__", f"{TPS}.await_reset", f"{TPS}.consumed_to", f"{TPS}.reset_to", f"{TPS}.seek"}
    n = 0
    for wf, wn, how in ctx.attr_writers("_position"):
        n += 1
        ctx.ob(R, wf, wn, wf.qualname in allowed, f"{wf.qualname} writes the consumer position", text="writer")
    if n < 5:
        raise AnalysisError(f"position-writers: {n} writers (floor 5)")
    who = {"consumed_to": {f"{FR}._update_position", f"{FETCHER}._proc_fetch_request"},
           "reset_to": {f"{FETCHER}._update_fetch_positions"},
           "await_reset": {f"{FETCHER}._proc_fetch_request", f"{FETCHER}._update_fetch_positions", f"{FETCHER}.request_offset_reset"}}
    for m, ok_callers in who.items():
        for cf, cn in ctx.callers(m):
            ctx.ob(R, cf, cn, cf.qualname in ok_callers, f"{m} called from {cf.qualname}", text=f"caller:{m}")
    for m, val in (("consumed_to", None), ("reset_to", None), ("seek", None)):
        f = ctx.fn(f"{TPS}.{m}")
        c = ctx.cfg(f)
        st = c.stores(attr="_position")
        ctx.ob(R, f, f.node, len(st) == 1 and unparse(st[0].stmt.value) == f.params()[1], f"{m} does not set the position to its argument", text=f"sets:{m}")
    f = ctx.fn(f"{TPS}.position")
    r = [n for n in ctx.cfg(f).nodes if n.kind == "return"]
    ctx.ob(R, f, f.node, len(r) == 1 and unparse(r[0].ast.value) == "self._position", "position property", text="getter")
    f = ctx.fn(f"{TPS}.has_valid_position")
    r = [n for n in ctx.cfg(f).nodes if n.kind == "return"]
    ctx.ob(R, f, f.node, len(r) == 1 and unparse(r[0].ast.value) == "self._position is not None", "has_valid_position property", text="valid-getter")
    # consumer.position() reads it (after waiting for validity)
    f = ctx.fn(f"{CONSUMER}.position")
    src = unparse(f.node)
    ctx.ob(R, f, f.node, "tp_state.position" in src and "has_valid_position" in src, "Consumer.position() does not return the tracked position", text="api-position")


def rule_unpack(ctx):
    R = "unpack"
    ctx.rep.rule(R, "_unpack_records: a record is yielded only if record.offset >= next_fetch_offset, and next_fetch_offset is set to "
                    "record.offset + 1 before the yield; the yielded record is built from that record; every way back to the batch loop head "
                    "sets next_fetch_offset = next_batch.next_offset (progress past filtered / compacted / control batches)")
    fi = ctx.fn(f"{PR}._unpack_records")
    c = ctx.cfg(fi)
    ys = [n for n in c.nodes if n.kind == "yield"]
    ctx.ob(R, fi, fi.node, len(ys) == 1, f"{len(ys)} yield sites", text="one-yield")
    wl = [n for n in c.nodes if n.kind == "loop" and isinstance(n.ast, ast.While)]
    wl = ctx.one(wl, "while records.has_next() loop")
    for y in ys:
        fl = c.enclosing(y, types=(ast.For,), role="body")
        ctx.anchor(bool(fl), "yield inside record loop")
        la = fl[0][0]
        rv = la.target.id if isinstance(la.target, ast.Name) else None
        head = c.loop_head(la)
        ctx.ob(R, fi, y, unparse(la.iter) == "next_batch", "records are not taken from the current batch", text="iter-batch")
        tests = [t for t in c.nodes if t.kind == "test" and isinstance(t.ast, ast.Compare) and len(t.ast.ops) == 1 and isinstance(t.ast.ops[0], (ast.Lt, ast.GtE))
                 and unparse(t.ast.left) == f"{rv}.offset" and unparse(t.ast.comparators[0]) == "self.next_fetch_offset"]
        ok = len(tests) == 1
        if ok:
            br = "F" if isinstance(tests[0].ast.ops[0], ast.Lt) else "T"
            ok = c.dominated_by_branch(tests[0], br, y)
        ctx.ob(R, fi, y, ok, "a record below the position can be yielded (or the comparison is not strict-below)", text="skip-below")
        st = [s for s in c.stores(attr="next_fetch_offset") if unparse(s.stmt.value) == f"{rv}.offset + 1"]
        ok = len(st) == 1 and c.dominates(st[0], y) and head in c.co_reachable([st[0]], avoid=[y]) and y in c.reachable([st[0]], avoid=[head])
        ctx.ob(R, fi, y, ok, "next_fetch_offset is not moved to record.offset + 1 before the record is yielded", text="advance-before-yield")
        # yielded value
        v = y.ast.value
        okv = False
        if isinstance(v, ast.Name):
            ds = local_defs(c, v.id)
            okv = len(ds) == 1 and isinstance(def_value(ds[0]), ast.Call) and call_attr(def_value(ds[0])) == "_consumer_record" and unparse(arg_of(def_value(ds[0]), 1)) == rv
        elif isinstance(v, ast.Call):
            okv = call_attr(v) == "_consumer_record" and unparse(arg_of(v, 1)) == rv
        ctx.ob(R, fi, y, okv, "yielded ConsumerRecord is not built from the current record", text="yield-value")
        # no other writes of next_fetch_offset inside the record loop
        body = c.loop_body(head)
        others = [s for s in c.stores(attr="next_fetch_offset") if s in body and s not in st]
        ctx.ob(R, fi, y, not others, "next_fetch_offset is also written elsewhere in the record loop", text="no-other-advance")
    # progress: every back edge to the batch loop sets next_fetch_offset = next_batch.next_offset
    nb = [s for s in c.nodes if s.kind == "stmt" and isinstance(s.ast, ast.Assign) and unparse(s.ast.targets[0]) == "next_batch"]
    nb = ctx.one(nb, "next_batch = records.next_batch()")
    ctx.ob(R, fi, nb, unparse(nb.ast.value) == "records.next_batch()", "next_batch is not the next batch", text="next-batch-def")
    prog = [s for s in c.stores(attr="next_fetch_offset") if unparse(s.stmt.value) == "next_batch.next_offset"]
    ok = bool(prog) and wl not in c.reachable([nb], avoid=set(prog), exc=False)
    ctx.ob(R, fi, nb, ok, "a batch can be left (skipped or exhausted) without moving next_fetch_offset to the batch's next_offset", text="progress")
    # after the record loop the batch-end store follows (so a compacted tail does not stall)
    for p in prog:
        ctx.ob(R, fi, p, wl in c.reachable([p], avoid=[nb], exc=False), "progress store does not lead back to the loop", text="progress-to-head")
    # constructor: position starts at the fetch offset
    f0 = ctx.fn(f"{PR}.__init__")
    st = ctx.cfg(f0).stores(attr="next_fetch_offset")
    ctx.ob(R, f0, f0.node, len(st) == 1 and unparse(st[0].stmt.value) == "fetch_offset", "next_fetch_offset does not start at the fetch offset", text="init")
    for wf, wn, how in ctx.attr_writers("next_fetch_offset"):
        ctx.ob(R, wf, wn, wf.qualname in (f"{PR}.__init__", f"{PR}._unpack_records"), f"{wf.qualname} writes next_fetch_offset", text="nfo-writer")
    # __next__ delegates to the generator
    fn = ctx.fn(f"{PR}.__next__")
    cn = ctx.cfg(fn)
    r = [x for x in cn.nodes if x.kind == "return"]
    ctx.ob(R, fn, fn.node, len(r) == 1 and unparse(r[0].ast.value) == "next(self._records_iterator)", "__next__ does not pull from the unpack generator", text="next-delegates")
    # next_offset in the python codec
    for q in ("aiokafka.record.default_records._DefaultRecordBatchPy.next_offset",):
        if ctx.repo.has_func(q):
            f = ctx.fn(q)
            r = [x for x in ctx.cfg(f).nodes if x.kind == "return"]
            ctx.ob(R, f, f.node, len(r) == 1 and unparse(r[0].ast.value) == "self.base_offset + self.last_offset_delta + 1", "next_offset != base_offset + last_offset_delta + 1", text="next-offset-v2")


def rule_seek_drop(ctx):
    R = "seek-drop"
    ctx.rep.rule(R, "seek_to / request_offset_reset: the buffered result of the partition is deleted and the fetch loop is woken on every "
                    "path; seek_to writes the position through SubscriptionState.seek with its own arguments; Consumer.seek goes through seek_to")
    for m in ("seek_to", "request_offset_reset"):
        fi = ctx.fn(f"{FETCHER}.{m}")
        c = ctx.cfg(fi)
        dels = [n for n in c.nodes if n.kind == "delete" and isinstance(n.ast, ast.Subscript) and unparse(n.ast.value) == "self._records"]
        tests = [t for t in c.nodes if t.kind == "test" and isinstance(t.ast, ast.Compare) and isinstance(t.ast.ops[0], ast.In) and unparse(t.ast.comparators[0]) == "self._records"]
        # the unconditional spelling: self._records.pop(tp, None)
        pops = [n for n in c.nodes if n.kind == "call" and call_attr(n.ast) == "pop" and unparse(n.ast.func.value) == "self._records" and len(n.ast.args) == 2
                and isinstance(n.ast.args[1], ast.Constant) and n.ast.args[1].value is None]
        via_pop = not dels and not tests and len(pops) == 1
        if via_pop:
            key = unparse(pops[0].ast.args[0])
            if m == "seek_to":
                okp = key == fi.params()[1] and c.exit not in c.reachable([c.entry], avoid=set(pops), exc=False)
            else:
                la = c.enclosing(pops[0], types=(ast.For,), role="body")
                okp = bool(la) and unparse(la[0][0].iter) == fi.params()[1] and unparse(la[0][0].target) == key
                if okp:
                    nxt = [n for n in c.nodes if n.kind == "fornext" and n.ast is la[0][0]][0]
                    okp = c.loop_head(la[0][0]) not in c.reachable([x for x, l in nxt.succ if l == "T"], avoid=set(pops), exc=False, include_src=True)
            ctx.ob(R, fi, fi.node, okp, f"{m}: buffered records of the partition survive the position change", text=f"{m}:drops-buffer")
        ok = len(dels) == 1 and len(tests) == 1 and c.dominated_by_branch(tests[0], "T", dels[0]) and unparse(dels[0].ast.slice) == unparse(tests[0].ast.left)
        if ok:
            ts = [x for x, l in tests[0].succ if l == "T"]
            heads = _inner_loop_heads(c, dels[0])
            ok = all(h not in c.reachable(ts, avoid=set(dels), exc=False, include_src=True) for h in heads + [c.exit])
            # the test is on every path (per partition)
            if m == "seek_to":
                ok = ok and c.exit not in c.reachable([c.entry], avoid=set(tests), exc=False)
            else:
                la = c.enclosing(dels[0], types=(ast.For,), role="body")
                ok = ok and bool(la) and unparse(la[0][0].iter) == fi.params()[1] and unparse(la[0][0].target) == unparse(tests[0].ast.left)
                if ok:
                    nxt = [n for n in c.nodes if n.kind == "fornext" and n.ast is la[0][0]][0]
                    ok = c.loop_head(la[0][0]) not in c.reachable([x for x, l in nxt.succ if l == "T"], avoid=set(tests), exc=False, include_src=True)
        if not via_pop:
            ctx.ob(R, fi, fi.node, ok, f"{m}: buffered records of the partition survive the position change", text=f"{m}:drops-buffer")
        nt = [n for n in c.calls(attr="_notify") if unparse(arg_of(n.ast, 0)) == "self._wait_consume_future"]
        ctx.ob(R, fi, fi.node, len(nt) >= 1 and c.exit not in c.reachable([c.entry], avoid=set(nt), exc=False), f"{m}: fetch loop is not woken", text=f"{m}:wakes")
    fi = ctx.fn(f"{FETCHER}.seek_to")
    c = ctx.cfg(fi)
    sk = [n for n in c.calls(attr="seek") if unparse(n.ast.func.value) == "self._subscriptions"]
    ctx.ob(R, fi, fi.node, len(sk) == 1 and [unparse(a) for a in sk[0].ast.args] == fi.params()[1:3] and c.exit not in c.reachable([c.entry], avoid=set(sk), exc=False),
           "seek_to does not set the position to the sought offset", text="seek-writes")
    fs = ctx.fn(f"{SUBS}.seek")
    cs = ctx.cfg(fs)
    sk = cs.calls(attr="seek")
    ctx.ob(R, fs, fs.node, len(sk) == 1 and unparse(sk[0].ast.func.value) == f"self._assigned_state({fs.params()[1]})" and unparse(arg_of(sk[0].ast, 0)) == fs.params()[2],
           "SubscriptionState.seek does not forward to the partition state", text="subs-seek")
    fc = ctx.fn(f"{CONSUMER}.seek")
    cc = ctx.cfg(fc)
    sk = cc.calls(attr="seek_to")
    ctx.ob(R, fc, fc.node, len(sk) == 1 and [unparse(a) for a in sk[0].ast.args] == fc.params()[1:3], "Consumer.seek bypasses Fetcher.seek_to (buffer not invalidated)", text="api-seek")
    fr = ctx.fn(f"{FETCHER}.request_offset_reset")
    cr = ctx.cfg(fr)
    ar = cr.calls(attr="await_reset")
    ctx.ob(R, fr, fr.node, len(ar) == 1 and unparse(arg_of(ar[0].ast, 0)) == fr.params()[2], "request_offset_reset does not arm the requested strategy", text="reset-strategy")


def rule_paused_filter(ctx):
    R = "paused-filter"
    ctx.rep.rule(R, "_get_actions_per_node: a partition is put in a fetch request only with a valid position and not paused, at its current "
                    "position; next_record / fetched_records skip partitions outside the `partitions` argument before touching their result")
    fi = ctx.fn(f"{FETCHER}._get_actions_per_node")
    c = ctx.cfg(fi)
    app = [n for n in c.calls(attr="append") if unparse(n.ast.func.value).startswith("fetchable[")]
    app = ctx.one(app, "fetchable[...].append")
    la = c.enclosing(app, types=(ast.For,), role="body")[0][0]
    head = c.loop_head(la)
    vt = [t for t in c.nodes if t.kind == "test" and unparse(t.ast) == "tp_state.has_valid_position"]
    pt = [t for t in c.nodes if t.kind == "test" and unparse(t.ast) == "tp_state.paused"]
    ok = len(vt) == 1 and c.dominates(vt[0], app) and app not in c.reachable([m for m, l in vt[0].succ if l == "F"], avoid=[head], include_src=True)
    ctx.ob(R, fi, app, ok, "a partition without a valid position can be fetched", text="valid-position")
    ok = len(pt) == 1 and c.dominates(pt[0], app) and app not in c.reachable([m for m, l in pt[0].succ if l == "T"], avoid=[head], include_src=True)
    ctx.ob(R, fi, app, ok, "a paused partition can be fetched", text="not-paused")
    el = arg_of(app.ast, 0)
    okp = isinstance(el, ast.Tuple) and len(el.elts) == 2 and unparse(el.elts[0]) == unparse(la.target)
    if okp and isinstance(el.elts[1], ast.Name):
        ds = list(c.reaching_defs()[app].get(el.elts[1].id, ()))
        okp = len(ds) == 1 and ds[0].kind == "store" and unparse(def_value(ds[0])) == "tp_state.position"
    ctx.ob(R, fi, app, okp, "fetch offset is not the partition's current position", text="fetch-at-position")
    ds = local_defs(c, "tp_state")
    ctx.ob(R, fi, fi.node, len(ds) == 1 and unparse(def_value(ds[0])) == f"assignment.state_value({unparse(la.target)})", "state is not this partition's", text="tp-state")
    # partition with buffered data is not fetched again
    bt = [t for t in c.nodes if t.kind == "test" and isinstance(t.ast, ast.Compare) and isinstance(t.ast.ops[0], ast.In) and unparse(t.ast.comparators[0]) == "self._records"]
    ok = len(bt) == 1 and app not in c.reachable([m for m, l in bt[0].succ if l == "T"], avoid=[head], include_src=True) and c.dominates(bt[0], app)
    ctx.ob(R, fi, app, ok, "a partition with undelivered buffered records can be fetched again (duplicates)", text="no-refetch-buffered")
    # request carries (partition, position, max bytes)
    rq = ctx.one(c.calls(name="FetchRequest"), "FetchRequest(...)")
    inner = [n for n in c.calls(attr="append") if unparse(n.ast.func.value).startswith("by_topics[")]
    ok = len(inner) == 1 and isinstance(arg_of(inner[0].ast, 0), ast.Tuple) and [unparse(x) for x in arg_of(inner[0].ast, 0).elts][:2] == ["tp.partition", "position"]
    ctx.ob(R, fi, rq, ok, "request entries are not (partition, position, ...)", text="request-entries")
    for m, take in (("next_record", "getone"), ("fetched_records", "getall")):
        f = ctx.fn(f"{FETCHER}.{m}")
        cc = ctx.cfg(f)
        tk = ctx.one(cc.calls(attr=take), f"{take} call in {m}")
        la = c2 = None
        fl = cc.enclosing(tk, types=(ast.For,), role="body")
        ctx.anchor(bool(fl), f"{take} inside the loop over buffered partitions")
        la = fl[0][0]
        head = cc.loop_head(la)
        tv = unparse(la.target)
        ft = [t for t in cc.nodes if t.kind == "test" and isinstance(t.ast, ast.Compare) and isinstance(t.ast.ops[0], ast.NotIn) and unparse(t.ast.left) == tv and unparse(t.ast.comparators[0]) == f.params()[1]]
        gate = [t for t in cc.nodes if t.kind == "test" and isinstance(t.ast, ast.Name) and t.ast.id == f.params()[1]]
        ok = len(ft) == 1 and tk not in cc.reachable([x for x, l in ft[0].succ if l == "T"], avoid=[head], include_src=True)
        if ok and not cc.dominates(ft[0], tk):
            # the membership test may be skipped only when `partitions` is empty (= no filter)
            ok = len(gate) == 1 and cc.dominates(gate[0], tk) and tk not in cc.reachable([x for x, l in gate[0].succ if l == "T"], avoid=[head, ft[0]], include_src=True)
        ctx.ob(R, f, tk, ok, f"{m}: a partition outside the `partitions` argument can be handed out", text=f"{m}:filter")
        ds = local_defs(cc, dotted(tk.ast.func.value) or "")
        ctx.ob(R, f, tk, len(ds) == 1 and unparse(def_value(ds[0])) == f"self._records[{tv}]", f"{m}: result is not the partition's", text=f"{m}:result-of-tp")
        # errors are raised only for requested partitions too, and removed first
        cr = cc.calls(attr="check_raise")
        for n in cr:
            dl = [d for d in cc.nodes if d.kind == "delete" and unparse(d.ast) == f"self._records[{tv}]" and cc.dominates(d, n)]
            ctx.ob(R, f, n, bool(dl), f"{m}: error raised without removing it (would be raised forever)", text=f"{m}:error-removed")
        # exhausted results are removed and the fetcher is woken
        nt = [n for n in cc.calls(attr="_notify") if unparse(arg_of(n.ast, 0)) == "self._wait_consume_future"]
        ctx.ob(R, f, f.node, len(nt) >= 2, f"{m}: fetch loop not woken after consumption", text=f"{m}:wakes")


def rule_reply_shape(ctx):
    R = "reply-shape"
    ctx.rep.rule(R, "symbolic evaluation of _proc_fetch_request for every selectable FetchRequest version against FetchResponse_vN: the record "
                    "set handed to MemoryRecords is the entry's message_set, aborted transactions are the entry's (None below v4), lso is "
                    "last_stable_offset, highwater is highwater_offset, the preferred replica is preferred_read_replica; error class from the "
                    "entry's error_code; partition from the entry")
    pt = ProtoTable(ctx.repo)
    b = ctx.one([x for x in pt.builders() if x.name == "FetchRequest"], "FetchRequest builder")
    fi = ctx.fn(f"{FETCHER}._proc_fetch_request")
    classes = pt.builder_classes(b)
    ctx.floor(classes, 11, "selectable FetchRequest versions")
    site = f"{fi.path}:{fi.node.lineno} {fi.qualname}"
    for rc in classes:
        v = pt.const(rc, "API_VERSION")
        resp = pt.response_type(rc)
        ctx.anchor(resp is not None, f"RESPONSE_TYPE of {rc.name}")
        sch = pt.schema(resp)
        part = elem_schema(find_field(sch, ["topics", "partitions"]))
        ctx.anchor(part is not None and part[0] == "schema", f"{resp.name} partitions schema")
        names = [n for n, _ in part[1]]
        base = "topics[].partitions[]."
        se = SymEval(interest=lambda c: c in ("MemoryRecords", "PartitionRecords", "TopicPartition", "<store>", "<unpack-mismatch>") or c.endswith("for_code") or c.endswith("_update_preferred_read_replica"))
        env = {"self": Unk("self"), "assignment": Unk("assignment"), "node_id": Unk("node"), "request": Unk("request")}
        # `response = await self._client.send(...)`: bind by name after the assignment -> pre-bind and ignore rebinding
        paths = _run_with_response(se, fi.node, env, make_struct(sch, pt.const(resp, "API_VERSION"), resp.name))
        mr, prs, tps, codes, stores, mism, repl = [], [], [], [], [], [], []
        for p in paths:
            for e in p.events:
                {"MemoryRecords": mr, "PartitionRecords": prs, "<unpack-mismatch>": mism}.get(e.callee, []).append(e)
                if e.callee == "TopicPartition" and any(isinstance(a, Field) for a in e.args):
                    tps.append(e)
                if e.callee.endswith("for_code"):
                    codes.append(e)
                if e.callee == "<store>":
                    stores.append(e)
                if e.callee.endswith("_update_preferred_read_replica"):
                    repl.append(e)
        k = f"{fi.qualname}|v{v}"
        ctx.rep.ob(R, site, k + "-unpack", not mism, f"v{v}: unpack arity mismatch against {names}")
        ctx.rep.ob(R, site, k + "-records", bool(mr) and all(e.args and e.args[0] == Field(base + "message_set") for e in mr), f"v{v}: MemoryRecords built from {mr[0].args if mr else None}")
        want_ab = Field(base + "aborted_transactions") if "aborted_transactions" in names else Const(None)
        def is_ab(x):
            if isinstance(want_ab, Const):
                return x == want_ab
            return getattr(x, "path", None) == base + "aborted_transactions" or (hasattr(x, "elem") and getattr(x, "path", "") == base + "aborted_transactions")
        ctx.rep.ob(R, site, k + "-aborted", bool(prs) and all(len(e.args) > 2 and is_ab(e.args[2]) for e in prs), f"v{v}: aborted transactions passed on are {prs[0].args[2] if prs else None}, expected {want_ab!r}")
        want_lso = Field(base + "last_stable_offset") if "last_stable_offset" in names else Const(None)
        ls = [e for e in stores if e.args[0].v == "tp_state.lso"]
        ctx.rep.ob(R, site, k + "-lso", bool(ls) and all(e.args[1] == want_lso for e in ls), f"v{v}: lso set to {ls[0].args[1] if ls else None}, expected {want_lso!r}")
        hw = [e for e in stores if e.args[0].v == "tp_state.highwater"]
        ctx.rep.ob(R, site, k + "-highwater", bool(hw) and all(e.args[1] == Field(base + "highwater_offset") for e in hw), f"v{v}: highwater set to {hw[0].args[1] if hw else None}")
        ctx.rep.ob(R, site, k + "-tp", bool(tps) and all(e.args == [Field("topics[].topics"), Field(base + "partition")] for e in tps), f"v{v}: partition identity {tps[0].args if tps else None}")
        ctx.rep.ob(R, site, k + "-error", bool(codes) and all(e.args and e.args[0] == Field(base + "error_code") for e in codes), f"v{v}: error class from {codes[0].args if codes else None}")
        if "preferred_read_replica" in names:
            ctx.rep.ob(R, site, k + "-replica", bool(repl) and all(len(e.args) == 2 and e.args[1] == Field(base + "preferred_read_replica") for e in repl), f"v{v}: preferred replica from {repl[0].args if repl else None}")
        else:
            ctx.rep.ob(R, site, k + "-replica", all(not isinstance(e.args[1], Field) for e in repl if len(e.args) == 2) , f"v{v}: preferred replica read from a field that does not exist")


class _Pin(dict):
    """Environment in which some names are pinned (assignments to them are ignored)."""


def _run_with_response(se, fn_ast, env, struct, name="response"):
    orig_bind = se.bind

    def bind(t, v, p):
        if isinstance(t, ast.Name) and t.id == name:
            p.env[name] = struct
            return
        orig_bind(t, v, p)

    se.bind = bind
    env = dict(env)
    env[name] = struct
    return se.run_function(fn_ast, env)


def run(ctx):
    rep = ctx.rep
    rep.explanation = ("C03 structural clauses: a fetch response is accepted per partition only for the position it was requested at (all effects, "
                       "including error arms); hand-out re-validates assignment/pause/position (symbolically evaluated), takes records and moves the "
                       "position with no suspension; position writers table; skip-below / advance-before-yield / progress in the unpack generator; "
                       "seek drops buffered data; paused and filtered partitions; reply shape of all 11 fetch versions by symbolic evaluation.")
    rule_accept(ctx)
    rule_handout(ctx)
    rule_api_handout(ctx)
    rule_exhausted_removed(ctx)
    from . import c13
    c13.rule_revalidate(ctx)       # a seek()/reset issued while a lookup is awaited wins over the looked-up offset
    rule_position_writers(ctx)
    rule_unpack(ctx)
    rule_seek_drop(ctx)
    rule_paused_filter(ctx)
    rule_reply_shape(ctx)
    from . import c08
    c08.rule_control_skip(ctx)
    from .common import rule_explicit_partitions_kept
    rule_explicit_partitions_kept(ctx, "handout")
    from .common import rule_instance_state
    rule_instance_state(ctx, ("aiokafka.consumer.",))
    rep.nd("equality of the delivered sequence with the broker's visible log for all log shapes (needs the record codec's values)")
    rep.nd("delivery 'to the end of the log once faults cease' (liveness)")
