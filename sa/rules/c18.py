"""C18 -- SCRAM login proves the password and authenticates the server."""
from __future__ import annotations

import ast

from ..loader import AnalysisError, call_attr, call_name, dotted, unparse
from ..rulekit import arg_of, const_value, def_value, is_none_test, local_defs, concat_parts

SA = "aiokafka.conn.ScramAuthenticator"


def _stores(ctx, attr):
    out = []
    ci = ctx.repo.cls(SA)
    for name, fi in ci.methods.items():
        c = ctx.cfg(fi)
        for s in c.stores(attr=attr):
            out.append((fi, c, s))
    return out


def _is_hmac(e, key_attr, msg_pred):
    return (isinstance(e, ast.Call) and unparse(e.func) == "self.hmac" and len(e.args) == 2 and unparse(e.args[0]) == f"self.{key_attr}" and msg_pred(e.args[1]))


def _is_auth_msg(e):
    return unparse(e) == "self._auth_message.encode('utf-8')"


def rule_nonce(ctx):
    R = "nonce"
    ctx.rep.rule(R, "the server nonce must extend the client nonce: a startswith(client nonce) test dominates the adoption of the server nonce and "
                    "every later use; its failure raises; the client nonce is a fresh random value per login")
    fi = ctx.fn(f"{SA}.process_server_first_message")
    c = ctx.cfg(fi)
    t = [x for x in c.nodes if x.kind == "test" and isinstance(x.ast, ast.Call) and call_attr(x.ast) == "startswith"]
    ok = len(t) == 1 and unparse(arg_of(t[0].ast, 0)) == "self._nonce"
    ctx.ob(R, fi, fi.node, ok, "no `server_nonce.startswith(self._nonce)` test", text="has-test")
    if not ok:
        return
    t = t[0]
    sn = dotted(t.ast.func.value)
    ds = local_defs(c, sn)
    ctx.ob(R, fi, t, len(ds) == 1 and unparse(def_value(ds[0])) == "params['r']", "the tested value is not the r= attribute of the server-first message", text="tests-r")
    fb = c.reachable([m for m, l in t.succ if l == "F"], include_src=True)
    ctx.ob(R, fi, t, any(n.kind == "raise" for n in fb) and c.exit not in fb, "a server nonce that does not extend the client nonce is accepted", text="raises")
    st = c.stores(attr="_nonce")
    ok = len(st) == 1 and unparse(st[0].stmt.value) == sn and c.dominated_by_branch(t, "T", st[0])
    ctx.ob(R, fi, t, ok, "combined nonce adopted before / without the prefix test", text="adopt-after-test")
    for n in c.nodes:
        if n.kind in ("call", "store") and n is not t and c.path_exists(t, n) and n.kind == "call" and call_attr(n.ast) in ("hmac", "create_salted_password", "_xor_bytes"):
            ctx.ob(R, fi, n, c.dominated_by_branch(t, "T", n), "key material derived before the nonce was checked", text="derive-after-test:" + call_attr(n.ast))
    f0 = ctx.fn(f"{SA}.__init__")
    s0 = ctx.cfg(f0).stores(attr="_nonce")
    ctx.ob(R, f0, f0.node, len(s0) == 1 and "uuid.uuid4()" in unparse(s0[0].stmt.value), "client nonce is not a fresh random value", text="fresh-nonce")
    for fi2, c2, s in _stores(ctx, "_nonce"):
        ctx.ob(R, fi2, s, fi2.name in ("__init__", "process_server_first_message"), f"{fi2.name} rewrites the nonce", text="nonce-writer")


def rule_verify(ctx):
    R = "verify-before-success"
    ctx.rep.rule(R, "the login generator reaches its end only through process_server_final_message, which raises unless the v= attribute of "
                    "the server-final message equals the expected ServerSignature (a full equality, not a prefix / zip comparison)")
    fg = ctx.fn(f"{SA}.authenticator_scram")
    c = ctx.cfg(fg)
    order = ["first_message", "process_server_first_message", "final_message", "process_server_final_message"]
    calls = {m: c.calls(attr=m) for m in order}
    ok = all(len(calls[m]) == 1 for m in order)
    ctx.ob(R, fg, fg.node, ok, "SCRAM exchange lacks a step", text="steps")
    if ok:
        seq = [calls[m][0] for m in order]
        ok = all(c.dominates(a, b) for a, b in zip(seq, seq[1:])) and c.exit not in c.reachable([c.entry], avoid=[seq[-1]], exc=False)
        ctx.ob(R, fg, fg.node, ok, "the generator can finish (login succeeds) without verifying the server signature, or steps are out of order", text="order-and-final")
        ys = [n for n in c.nodes if n.kind == "yield"]
        ok = len(ys) == 2 and all(isinstance(y.ast.value, ast.Tuple) and const_value(y.ast.value.elts[1]) is True for y in ys)
        ctx.ob(R, fg, fg.node, ok, "client messages are not both sent expecting a reply", text="yields")
        for y, m_after in zip(ys, ("process_server_first_message", "process_server_final_message")):
            tgt = y.stmt.targets[0].id if isinstance(y.stmt, ast.Assign) and isinstance(y.stmt.targets[0], ast.Name) else None
            a = arg_of(calls[m_after][0].ast, 0)
            ctx.ob(R, fg, y, tgt is not None and a is not None and unparse(a) == f"{tgt}.decode('utf-8')", f"{m_after} is not given the server's reply", text="reply-flows:" + m_after)
    ff = ctx.fn(f"{SA}.process_server_final_message")
    cf = ctx.cfg(ff)
    tests = [t for t in cf.nodes if t.kind == "test"]
    ok = False
    why = "no comparison"
    for t in tests:
        e = t.ast
        pair = None
        if isinstance(e, ast.Compare) and len(e.ops) == 1 and isinstance(e.ops[0], (ast.NotEq, ast.Eq)):
            pair = (e.left, e.comparators[0], "T" if isinstance(e.ops[0], ast.NotEq) else "F")
        elif isinstance(e, ast.Call) and unparse(e.func).endswith("compare_digest") and len(e.args) == 2:
            pair = (e.args[0], e.args[1], "F")
        if pair is None:
            why = f"signature check is `{unparse(e)[:60]}`, not an equality of the two signatures"
            continue
        l, r, bad = pair
        sides = {unparse(l), unparse(r)}
        got = [s for s in sides if s != "self._server_signature"]
        if "self._server_signature" in sides and len(got) == 1 and got[0].startswith("base64.b64decode(params['v']"):
            bb = cf.reachable([m for m, l2 in t.succ if l2 == bad], include_src=True)
            if any(n.kind == "raise" for n in bb) and cf.exit not in bb and cf.dominates(t, cf.exit) is not False:
                ok = cf.exit not in cf.reachable([cf.entry], avoid=[t], exc=False)
                why = "the comparison is not on every path"
    ctx.ob(R, ff, ff.node, ok, f"server signature is not verified by full equality with the expected one ({why})", text="signature-equality")
    pd = local_defs(cf, "params")
    ctx.ob(R, ff, ff.node, len(pd) == 1 and "server_final.split(',')" in unparse(def_value(pd[0])) and "split('=', 1)" in unparse(def_value(pd[0])), "server-final message is not parsed as comma-separated k=v", text="final-parse")
    # base class: StopIteration -> None (success) only from the generator end
    fb = ctx.fn("aiokafka.conn.BaseSaslAuthenticator._step")
    cb = ctx.cfg(fb)
    hs = [n for n in cb.nodes if n.kind == "handler"]
    ok = len(hs) == 1 and unparse(hs[0].ast.type) == "StopIteration"
    ctx.ob(R, fb, fb.node, ok, "authenticator step swallows errors other than generator exhaustion (a failed verification would count as success)", text="only-stopiteration")
    fh = ctx.fn("aiokafka.conn.AIOKafkaConnection._do_sasl_handshake")
    ch = ctx.cfg(fh)
    stp = [n for n in ch.nodes if n.kind == "await" and "authenticator.step(" in unparse(n.ast)]
    if not stp:      # driven through a helper of the connection (its own discipline is decided by driver-exhausts)
        stp = [n for n in ch.nodes if n.kind == "await" and isinstance(n.ast, ast.Await) and isinstance(n.ast.value, ast.Call) and unparse(n.ast.value.func).startswith("self.")
               and any(any(isinstance(x, ast.Call) and call_attr(x) == "step" for x in ast.walk(t.node)) for t in ctx.resolve_call(fh, n.ast.value))]
    hs = [m for n in stp for m, l in n.succ if l == "exc" and m.kind == "handler"]
    ctx.ob(R, fh, fh.node, len(stp) == 1 and not hs, "errors of the authenticator are caught in the handshake loop", text="handshake-propagates")


def rule_provenance(ctx):
    R = "provenance"
    ctx.rep.rule(R, "RFC 5802 derivations (each attribute has exactly one defining store, of the stated form): SaltedPassword = "
                    "PBKDF2(hash, password, salt, i) on every call with the salt / iteration count of THIS server-first message; ClientKey = "
                    "HMAC(SaltedPassword,'Client Key'); StoredKey = H(ClientKey); ClientSignature = HMAC(StoredKey, AuthMessage); ClientProof = "
                    "ClientKey XOR ClientSignature; ServerKey = HMAC(SaltedPassword,'Server Key'); ServerSignature = HMAC(ServerKey, AuthMessage); "
                    "AuthMessage = client-first-bare , server-first , c=biws,r=<combined nonce>")
    fi = ctx.fn(f"{SA}.process_server_first_message")
    c = ctx.cfg(fi)
    want = {
        "_client_key": lambda e: _is_hmac(e, "_salted_password", lambda m: const_value(m) == b"Client Key"),
        "_stored_key": lambda e: unparse(e) == "self._hashfunc(self._client_key).digest()",
        "_client_signature": lambda e: _is_hmac(e, "_stored_key", _is_auth_msg),
        "_client_proof": lambda e: isinstance(e, ast.Call) and unparse(e.func).endswith("_xor_bytes") and [unparse(a) for a in e.args] == ["self._client_key", "self._client_signature"],
        "_server_key": lambda e: _is_hmac(e, "_salted_password", lambda m: const_value(m) == b"Server Key"),
        "_server_signature": lambda e: _is_hmac(e, "_server_key", _is_auth_msg),
    }
    order = list(want)
    nodes = {}
    for attr, pred in want.items():
        sts = [(f, cc, s) for f, cc, s in _stores(ctx, attr) if f.name != "__init__"]
        ok = len(sts) == 1 and sts[0][0].name == "process_server_first_message" and pred(sts[0][2].stmt.value)
        ctx.ob(R, fi, sts[0][2] if sts else fi.node, ok, f"{attr} is not derived as RFC 5802 prescribes: {unparse(sts[0][2].stmt.value)[:80] if sts else 'no store'}", text="derive:" + attr)
        if len(sts) == 1:
            nodes[attr] = sts[0][2]
    # order of derivations and dependence on completed transcript / salted password
    sp = c.calls(attr="create_salted_password")
    ok = len(sp) == 1 and [unparse(a) for a in sp[0].ast.args] == ["salt", "iterations"]
    sd, idf = local_defs(c, "salt"), local_defs(c, "iterations")
    ok = ok and len(sd) == 1 and unparse(def_value(sd[0])) == "base64.b64decode(params['s'].encode('utf-8'))" and len(idf) == 1 and unparse(def_value(idf[0])) == "int(params['i'])"
    ctx.ob(R, fi, fi.node, ok, "salted password is not computed from the s= / i= attributes of this server-first message", text="salt-and-iterations")
    if sp and nodes:
        ctx.ob(R, fi, sp[0], all(c.dominates(sp[0], n) for n in nodes.values()), "keys derived before the salted password", text="salted-first")
    am = [s for s in c.stores(attr="_auth_message")]
    ok = len(am) == 2 and all(isinstance(s.stmt, ast.AugAssign) and isinstance(s.stmt.op, ast.Add) for s in am)
    if ok:
        v = [concat_parts(s.stmt.value) for s in am]
        ok = v == [[("s", ","), ("e", fi.params()[1])], [("s", ",c=biws,r="), ("e", "self._nonce")]] and c.dominates(am[0], am[1])
        ns = c.stores(attr="_nonce")
        ok = ok and len(ns) == 1 and c.dominates(ns[0], am[1])
        ok = ok and all(c.dominates(am[1], nodes[a]) for a in ("_client_signature", "_server_signature") if a in nodes)
    ctx.ob(R, fi, fi.node, ok, "AuthMessage is not client-first-bare + ',' + server-first + ',c=biws,r=' + combined nonce, completed before the signatures", text="transcript")
    pd = local_defs(c, "params")
    ctx.ob(R, fi, fi.node, len(pd) == 1 and "server_first.split(',')" in unparse(def_value(pd[0])), "server-first message parse", text="first-parse")
    ff = ctx.fn(f"{SA}.first_message")
    cf = ctx.cfg(ff)
    am = cf.stores(attr="_auth_message")
    bare = local_defs(cf, "client_first_bare")
    ok = len(am) == 1 and isinstance(am[0].stmt, ast.AugAssign) and unparse(am[0].stmt.value) == "client_first_bare" and len(bare) == 1 and concat_parts(def_value(bare[0])) == [("s", "n="), ("e", "quoted_username"), ("s", ",r="), ("e", "self._nonce")]
    r = [x for x in cf.nodes if x.kind == "return"]
    ok = ok and len(r) == 1 and concat_parts(r[0].ast.value) == [("s", "n,,"), ("e", "client_first_bare")]
    ctx.ob(R, ff, ff.node, ok, "client-first message is not gs2-header 'n,,' + 'n=<user>,r=<nonce>' with the bare part recorded in the transcript", text="client-first")
    f0 = ctx.fn(f"{SA}.__init__")
    s0 = ctx.cfg(f0).stores(attr="_auth_message")
    ctx.ob(R, f0, f0.node, len(s0) == 1 and const_value(s0[0].stmt.value) == "", "transcript does not start empty", text="transcript-init")
    fs = ctx.fn(f"{SA}.create_salted_password")
    cs = ctx.cfg(fs)
    st = cs.stores(attr="_salted_password")
    ok = len(st) == 1 and isinstance(st[0].stmt.value, ast.Call) and unparse(st[0].stmt.value.func) == "hashlib.pbkdf2_hmac" and \
        [unparse(a) for a in st[0].stmt.value.args] == ["self._hashname", "self._sasl_plain_password", fs.params()[1], fs.params()[2]] and \
        cs.exit not in cs.reachable([cs.entry], avoid=set(st), exc=False) and not any(t.kind == "test" and not isinstance(t.ast, ast.Constant) for t in cs.nodes)
    ctx.ob(R, fs, fs.node, ok, "SaltedPassword is not PBKDF2(hash, password, salt, iterations) recomputed on every call (e.g. cached under a key "
                               "that omits a parameter)", text="pbkdf2")
    for f, cc, s in _stores(ctx, "_salted_password"):
        ctx.ob(R, f, s, f.name in ("__init__", "create_salted_password"), f"{f.name} writes the salted password", text="salted-writer")
    fm = ctx.fn(f"{SA}.final_message")
    cm = ctx.cfg(fm)
    r = [x for x in cm.nodes if x.kind == "return"]
    pd = local_defs(cm, "client_proof")
    ok = len(r) == 1 and unparse(r[0].ast.value) == "f'c=biws,r={self._nonce},p={client_proof}'" and len(pd) == 1 and unparse(def_value(pd[0])) == "base64.b64encode(self._client_proof).decode('utf-8')"
    ctx.ob(R, fm, fm.node, ok, "client-final message is not c=biws,r=<nonce>,p=base64(ClientProof)", text="client-final")
    fx = ctx.fn(f"{SA}._xor_bytes")
    r = [x for x in ctx.cfg(fx).nodes if x.kind == "return"]
    ctx.ob(R, fx, fx.node, len(r) == 1 and unparse(r[0].ast.value).startswith("bytes((lb ^ rb for lb, rb in zip(left, right"), "xor helper", text="xor")
    fh = ctx.fn(f"{SA}.hmac")
    r = [x for x in ctx.cfg(fh).nodes if x.kind == "return"]
    ctx.ob(R, fh, fh.node, len(r) == 1 and unparse(r[0].ast.value) == "hmac.new(key, msg, digestmod=self._hashfunc).digest()", "hmac helper", text="hmac")
    ci = ctx.repo.cls(SA)
    mech = [s for s in ci.node.body if isinstance(s, ast.Assign) and unparse(s.targets[0]) == "MECHANISMS"]
    ok = len(mech) == 1 and unparse(mech[0].value) == "{'SCRAM-SHA-256': hashlib.sha256, 'SCRAM-SHA-512': hashlib.sha512}"
    ctx.rep.ob(R, f"{ci.module.relpath}:{ci.node.lineno} ScramAuthenticator", "ScramAuthenticator|mechanisms", ok, "mechanism -> hash table")
    st = {unparse(s.ast): unparse(s.stmt.value) for s in ctx.cfg(f0).nodes if s.kind == "store" and isinstance(s.ast, ast.Attribute)}
    ok = st.get("self._hashfunc") == "self.MECHANISMS[sasl_mechanism]" and st.get("self._hashname") == "''.join(sasl_mechanism.lower().split('-')[1:3])" and st.get("self._sasl_plain_password") == "sasl_plain_password.encode('utf-8')"
    ctx.ob(R, f0, f0.node, ok, "hash function / PBKDF2 hash name / password bytes are not taken from the mechanism and the configured password", text="hash-config")


def _escape_sequence(ctx, ff):
    """Ordered (old, new) replacement pairs applied to the username, and the expression they end in.
    Understands chained `.replace(a, b).replace(c, d)` and `for a, b in <constant tuple of pairs>: name = name.replace(a, b)`."""
    from ..constfold import ConstEnv, Unknown
    c = ctx.cfg(ff)
    reps = c.calls(attr="replace")
    pairs, final = [], None
    consts = [(const_value(arg_of(n.ast, 0)), const_value(arg_of(n.ast, 1))) for n in reps]
    if reps and all(isinstance(a, str) and isinstance(b, str) for a, b in consts):
        # chained / sequential constant replaces, in evaluation order
        pairs = consts
        final = reps[-1]
        root = reps[0].ast.func.value
        for prev, nxt in zip(reps, reps[1:]):
            if nxt.ast.func.value is not prev.ast:
                # sequential statements: x = x.replace(..): accept when the receiver is the variable assigned from prev
                tgt = prev.stmt.targets[0] if isinstance(prev.stmt, ast.Assign) else None
                if tgt is None or unparse(nxt.ast.func.value) != unparse(tgt):
                    return None, None, None
        return pairs, unparse(root), final
    if len(reps) == 1:
        n = reps[0]
        loops = [a for a, role in n.within if isinstance(a, ast.For) and role == "body"]
        if loops and isinstance(loops[-1].target, ast.Tuple) and len(loops[-1].target.elts) == 2:
            lp = loops[-1]
            names = [unparse(e) for e in lp.target.elts]
            if [unparse(x) for x in n.ast.args[:2]] == names and isinstance(n.stmt, ast.Assign) and unparse(n.stmt.targets[0]) == unparse(n.ast.func.value):
                env = ConstEnv(ff.module.tree, ff.cls.name if ff.cls is not None else None)
                try:
                    seq = env.eval(lp.iter)
                except Unknown:
                    seq = None
                if isinstance(seq, (tuple, list)) and all(isinstance(p, (tuple, list)) and len(p) == 2 for p in seq):
                    var = unparse(n.ast.func.value)
                    ds = local_defs(c, var)
                    root = unparse(def_value(ds[0])) if ds and def_value(ds[0]) is not None else var
                    return [tuple(p) for p in seq], root, n
    return None, None, None


def rule_escaping(ctx):
    R = "escaping"
    ctx.rep.rule(R, "username escaping per RFC 5802 5.1: exactly '=' -> '=3D' and ',' -> '=2C', with '=' escaped first (the other order would "
                    "re-escape the '=' it just produced), applied to the configured user name, and the escaped name is the one sent")
    ff = ctx.fn(f"{SA}.first_message")
    c = ctx.cfg(ff)
    pairs, root, final = _escape_sequence(ctx, ff)
    ctx.anchor(pairs is not None, "username escaping in first_message (chained replace or a loop over constant pairs)")
    ok = sorted(pairs) == sorted([("=", "=3D"), (",", "=2C")]) and pairs.index(("=", "=3D")) < pairs.index((",", "=2C"))
    ctx.ob(R, ff, ff.node, ok, f"username escaping is {pairs}: '=' must become '=3D' before ',' becomes '=2C'", text="order")
    ctx.ob(R, ff, ff.node, root == "self._sasl_plain_username", f"escaping is applied to `{root}`, not to the configured user name", text="escapes-username")
    # the escaped value reaches the `n=` field of client-first-message-bare
    if isinstance(final.stmt, ast.Assign):
        var = unparse(final.stmt.targets[0])
    else:
        var = None
    src = unparse(ff.node)
    ctx.ob(R, ff, ff.node, var is not None and ("n={" + var + "}") in src.replace("!s", "") or (var is not None and f"'n=' + {var}" in src), "the escaped name is not what is sent in the n= field", text="escaped-is-sent")


def rule_driver(ctx):
    R = "driver-exhausts"
    ctx.rep.rule(R, "the handshake loop of the connection steps the authenticator until it is exhausted: the only normal way out of the loop is "
                    "`authenticator.step()` having returned None (for SCRAM that is where the server signature is verified); every reply of the "
                    "broker is fed to the next step; the SCRAM authenticator is the one used for SCRAM mechanisms")
    fi = ctx.fn("aiokafka.conn.AIOKafkaConnection._do_sasl_handshake")
    c = ctx.cfg(fi)
    steps = [n for n in c.nodes if n.kind == "await" and isinstance(n.ast, ast.Await) and isinstance(n.ast.value, ast.Call) and call_attr(n.ast.value) == "step"]
    steps = [n for n in steps if unparse(n.ast.value.func.value) == "authenticator"]
    if not steps:
        # the step may be driven through a helper of the connection: then the helper's result must BE the step's result on every
        # normal path (no other value, no falling off the end with None -- None is what the loop reads as `exhausted`)
        via = []
        for n in c.nodes:
            if n.kind == "await" and isinstance(n.ast, ast.Await) and isinstance(n.ast.value, ast.Call) and unparse(n.ast.value.func).startswith("self."):
                for t in ctx.resolve_call(fi, n.ast.value):
                    if any(isinstance(x, ast.Call) and call_attr(x) == "step" for x in ast.walk(t.node)):
                        via.append((n, t))
        ctx.anchor(len(via) == 1, "await authenticator.step(...) in _do_sasl_handshake (directly or through one helper)")
        st, helper = via[0]
        ch = ctx.cfg(helper)
        hs = [x for x in ch.nodes if x.kind in ("await", "call") and isinstance(getattr(x.ast, "value", x.ast), ast.Call) and call_attr(getattr(x.ast, "value", x.ast)) == "step"]
        direct = [r for r in ch.nodes if r.kind == "return" and r.ast.value is not None and isinstance(r.ast.value, ast.Await) and isinstance(r.ast.value.value, ast.Call)
                  and call_attr(r.ast.value.value) == "step"]
        ok = bool(direct) and ch.exit not in ch.reachable([ch.entry], avoid=set(direct), exc=False)
        ctx.ob(R, helper, helper.node, ok, f"{helper.name}() can end normally with something other than the authenticator step's own result (e.g. None after a timeout): "
                                           "the handshake loop takes None for `authentication complete` although the server's proof was never verified", text="helper-returns-step-result")
    else:
        ctx.anchor(len(steps) == 1, "await authenticator.step(...) in _do_sasl_handshake")
        st = steps[0]
    loops = [a for a, role in st.within if isinstance(a, ast.While) and role == "body"]
    ctx.anchor(len(loops) == 1, "handshake loop")
    head = c.loop_head(loops[0])
    body = c.loop_body(head)
    resv = unparse(st.stmt.targets[0]) if isinstance(st.stmt, ast.Assign) else None
    tests = [t for t in body if t.kind == "test" and resv is not None and is_none_test(t.ast) is not None and unparse(is_none_test(t.ast)) == resv]
    ctx.anchor(len(tests) == 1, "`res is None` test after the step")
    done_edge = [m for m, l in tests[0].succ if l == "T"]
    # normal exits of the loop: edges from a body node to a node outside the body (raise/exception edges excluded)
    exits = []
    for n in body:
        for m, l in n.succ:
            if l in ("exc", "raise") or m in body or m is c.raise_exit:
                continue
            if c.exit not in c.reachable([m], exc=False, include_src=True):
                continue   # this way out ends in a raise: the login fails, nothing is reported successful
            exits.append((n, m))
    bad = []
    for n, m in exits:
        # the exit must be reachable only through the `res is None` branch, with no further step in between
        if not c.dominated_by_branch(tests[0], "T", n) and n is not tests[0]:
            bad.append(n)
        elif n is tests[0] and m not in done_edge:
            bad.append(n)
    ctx.ob(R, fi, head, not bad, f"the handshake can leave the loop without the authenticator being exhausted (at lines {sorted({b.lineno for b in bad})}): "
                                 "the last step -- verification of the server's signature for SCRAM -- is skipped and the login is reported successful", text="exits-only-when-exhausted")
    # what the broker answered is what the next step sees
    arg = unparse(arg_of(st.ast.value, 0)) if st.ast.value.args else None
    stores = [n for n in body if n.kind == "store" and unparse(n.ast) == arg]
    okf = bool(stores) and all(("sasl_auth_bytes" in unparse(n.stmt.value) or "_send_sasl_token" in unparse(n.stmt.value)) for n in stores)
    ctx.ob(R, fi, st, okf, "the bytes handed to the next authenticator step are not the broker's reply", text="reply-fed-to-step")
    src = unparse(fi.node)
    sel = [n for n in ast.walk(fi.node) if isinstance(n, ast.If) and "SCRAM-SHA-" in unparse(n.test)]
    oks = bool(sel) and any("authenticator_scram()" in unparse(x) for x in sel[0].body)
    ctx.ob(R, fi, fi.node, oks, "SCRAM mechanisms do not use the SCRAM authenticator", text="scram-authenticator-selected")



def rule_handshake_errors(ctx):
    R = "handshake-errors"
    ctx.rep.rule(R, "_do_sasl_handshake: a broker reply that carries an error code (to SaslHandshake, to every SaslAuthenticate) ends the login: "
                    "on the arm where the code is not NoError the connection is closed and an exception raised -- the normal end of the function "
                    "(= authenticated) is unreachable from it; the mechanism the client asked for must be among those the broker enabled; a "
                    "SCRAM mechanism is driven by the SCRAM authenticator")
    from ..rulekit import atoms_of_test
    fi = ctx.fn("aiokafka.conn.AIOKafkaConnection._do_sasl_handshake")
    c = ctx.cfg(fi)
    codes = [n for n in c.calls(attr="for_code")]
    ctx.anchor(len(codes) >= 2, "Errors.for_code(...) of the handshake and authenticate replies")
    bad = {("error_type", "is not", "Errors.NoError"), ("error_type", "!=", "Errors.NoError")}
    edges = []
    for t in c.nodes:
        if t.kind == "test":
            for m, l in t.succ:
                lab = l
                if l == "back":
                    others = {x for _m, x in t.succ if x in ("T", "F")}
                    lab = "F" if others == {"T"} else "T" if others == {"F"} else None
                if lab in ("T", "F") and atoms_of_test(t.ast, lab == "T") & bad:
                    edges.append((t, m))
    ctx.ob(R, fi, fi.node, len(edges) >= len(codes), f"{len(codes)} reply codes are read but only {len(edges)} are tested for an error", text="every-code-tested")
    for t, m in edges:
        reg = c.reachable([m], exc=False, include_src=True)
        heads = [h for h in reg if h.kind == "loop"]
        cl = [n for n in reg if n.kind == "call" and call_attr(n.ast) == "close" and dotted(n.ast.func.value) == "self"]
        ok = c.exit not in reg and not heads and bool(cl) and any(n.kind == "raise" for n in reg) and not any(n.kind == "await" for n in reg)
        ctx.ob(R, fi, t, ok, "an error reply of the broker does not end the login (close + raise): authentication can complete although the broker refused it", text="error-reply-ends-login:" + str(codes.index(min(codes, key=lambda x: abs(x.lineno - t.lineno)))))
    # each code test follows its own reply
    for cd in codes:
        ok = any(c.dominates(cd, t) and not any(c.dominates(cd, o) and c.dominates(o, t) for o in codes if o is not cd) for t, _m in edges)
        ctx.ob(R, fi, cd, ok, "a reply's error code is read but not examined before the next step", text="code-examined:" + unparse(cd.ast)[:50])
    mech = [t for t in c.nodes if t.kind == "test" and isinstance(t.ast, ast.Compare) and isinstance(t.ast.ops[0], (ast.NotIn, ast.In)) and "enabled_mechanisms" in unparse(t.ast.comparators[0])]
    ok = len(mech) == 1
    if ok:
        lab = "T" if isinstance(mech[0].ast.ops[0], ast.NotIn) else "F"
        reg = c.reachable([m for m, l in mech[0].succ if l == lab], exc=False, include_src=True)
        ok = c.exit not in reg and any(n.kind == "raise" for n in reg) and not any(n.kind == "await" for n in reg)
    ctx.ob(R, fi, fi.node, ok, "a mechanism the broker did not enable is not refused", text="mechanism-enabled")
    sc = [n for n in c.calls(attr="authenticator_scram")]
    okm = len(sc) == 1 and any(a[0].startswith("self._sasl_mechanism.startswith('SCRAM-SHA-')") and a[1] == "truthy" for a in __import__("sa.rulekit", fromlist=["must_facts"]).must_facts(c)[sc[0]])
    ctx.ob(R, fi, fi.node, okm, "the SCRAM authenticator is not selected exactly for the SCRAM-SHA-* mechanisms", text="scram-selected")


def run(ctx):
    rep = ctx.rep
    rep.explanation = ("C18 structural clauses of ScramAuthenticator: nonce prefix check dominating all key derivation; the login generator ends only "
                       "through a full-equality verification of the server signature; def-use table of the RFC 5802 derivations and of the transcript; "
                       "username escaping order.")
    rule_nonce(ctx)
    rule_verify(ctx)
    rule_provenance(ctx)
    rule_escaping(ctx)
    rule_driver(ctx)
    rule_handshake_errors(ctx)
    from .common import rule_credentials_verbatim
    rule_credentials_verbatim(ctx, "provenance")
    from .common import rule_instance_state
    rule_instance_state(ctx, ("aiokafka.conn.",))
    rep.nd("that a real server accepts the messages (HMAC / PBKDF2 values themselves)")
