"""Parse the package under analysis and index modules, classes and functions.

Nothing here imports aiokafka; everything is `ast` over the working tree.
"""
from __future__ import annotations

import ast
import hashlib
import os


class AnalysisError(Exception):
    """The checker cannot decide (vanished anchor, unsupported construct).

    Reported as ANALYSIS-ERROR, exit 2 -- never as a violation, never as a pass.
    """


class FuncInfo:
    def __init__(self, qualname, node, module, cls, parent=None):
        self.qualname = qualname
        self.node = node
        self.module = module
        self.cls = cls
        self.parent = parent
        self.name = node.name
        self.is_async = isinstance(node, ast.AsyncFunctionDef)
        self.owner_cls = cls if cls is not None else (parent.owner_cls if parent is not None else None)

    @property
    def path(self):
        return self.module.relpath

    def params(self):
        a = self.node.args
        return [x.arg for x in a.posonlyargs + a.args + a.kwonlyargs] + (
            [a.vararg.arg] if a.vararg else []
        ) + ([a.kwarg.arg] if a.kwarg else [])

    def is_generator(self):
        for n in walk_own(self.node):
            if isinstance(n, (ast.Yield, ast.YieldFrom)):
                return True
        return False

    def __repr__(self):
        return f"<func {self.qualname}>"


class ClassInfo:
    def __init__(self, qualname, node, module):
        self.qualname = qualname
        self.node = node
        self.module = module
        self.name = node.name
        self.methods = {}
        self.bases = [base_name(b) for b in node.bases]

    def __repr__(self):
        return f"<class {self.qualname}>"


def base_name(b):
    if isinstance(b, ast.Name):
        return b.id
    if isinstance(b, ast.Attribute):
        return b.attr
    if isinstance(b, ast.Subscript):
        return base_name(b.value)
    return ast.unparse(b)


class Module:
    def __init__(self, name, path, relpath, src):
        self.name = name
        self.path = path
        self.relpath = relpath
        self.src = src
        self.tree = ast.parse(src, filename=path)
        self.inlined = []
        if not os.environ.get("VERIF_NO_ALPHA"):
            from . import alpha, normalise
            self.tree = normalise.lower_ifexp(self.tree)
            self.attr_renames = alpha.normalise_attributes(name, self.tree)
            known = alpha.baseline().get("__functions__")
            if known:
                self.inlined = normalise.inline_new_helpers(name, self.tree, set(known))
            normalise.fold_kwargs_dicts(self.tree)
            ast.fix_missing_locations(self.tree)
        self.link_parents(self.tree)

    @staticmethod
    def link_parents(root):
        for parent in ast.walk(root):
            for child in ast.iter_child_nodes(parent):
                child._parent = parent


def walk_own(fn):
    """Walk a function body without descending into nested defs / lambdas / classes."""
    stack = list(ast.iter_child_nodes(fn))
    while stack:
        n = stack.pop()
        yield n
        if isinstance(
            n, (ast.FunctionDef, ast.AsyncFunctionDef, ast.Lambda, ast.ClassDef)
        ):
            continue
        stack.extend(ast.iter_child_nodes(n))


class Repo:
    def __init__(self, root="/repo", pkg="aiokafka"):
        self.root = os.path.abspath(root)
        self.pkg = pkg
        self.modules = {}
        self.funcs = {}
        self.classes = {}
        self.classes_by_name = {}
        self.renamed = {}   # qualname -> {new local name: reviewed name} applied by sa/alpha.py
        self._digest = hashlib.sha256()
        pkgdir = os.path.join(self.root, pkg)
        if not os.path.isdir(pkgdir):
            raise AnalysisError(f"package directory {pkgdir} not found")
        for dirpath, dirnames, filenames in sorted(os.walk(pkgdir)):
            dirnames.sort()
            for fn in sorted(filenames):
                if not fn.endswith(".py"):
                    continue
                path = os.path.join(dirpath, fn)
                rel = os.path.relpath(path, self.root)
                mod = rel[:-3].replace(os.sep, ".")
                if mod.endswith(".__init__"):
                    mod = mod[: -len(".__init__")]
                with open(path, encoding="utf-8") as f:
                    src = f.read()
                self._digest.update(rel.encode())
                self._digest.update(src.encode())
                try:
                    m = Module(mod, path, rel, src)
                except SyntaxError as e:
                    raise AnalysisError(f"{rel}: does not parse: {e}") from e
                self.modules[mod] = m
                self._index(m)
        if not os.environ.get("VERIF_NO_ALPHA"):
            from . import normalise
            self.call_forms = normalise.canonical_call_forms(self)

    def digest(self):
        return self._digest.hexdigest()[:16]

    def _index(self, m):
        def visit(node, prefix, cls, parent):
            for child in ast.iter_child_nodes(node):
                if isinstance(child, ast.ClassDef):
                    q = f"{prefix}.{child.name}"
                    ci = ClassInfo(q, child, m)
                    self.classes[q] = ci
                    self.classes_by_name.setdefault(child.name, []).append(ci)
                    visit(child, q, ci, None)
                elif isinstance(child, (ast.FunctionDef, ast.AsyncFunctionDef)):
                    q = f"{prefix}.{child.name}"
                    fi = FuncInfo(q, child, m, cls if parent is None else None, parent)
                    if parent is not None and fi.owner_cls is None:
                        fi.owner_cls = parent.owner_cls
                    # property setters etc. share a name: keep the first, suffix others
                    if q in self.funcs:
                        k = 2
                        while f"{q}#{k}" in self.funcs:
                            k += 1
                        q = f"{q}#{k}"
                        fi.qualname = q
                    self.funcs[q] = fi
                    from . import alpha, normalise
                    base0 = alpha.baseline()
                    if base0 and not os.environ.get("VERIF_NO_ALPHA") and q in set(base0.get("__functions__", ())) \
                            and normalise.count_comprehensions(child) > base0.get("__comprehensions__", {}).get(q, 0):
                        if normalise.lower_comprehensions(child):
                            ast.fix_missing_locations(child)
                            Module.link_parents(child)
                            child._parent = node
                            self.renamed.setdefault(q, {})["<comprehension>"] = "<loop>"
                    pm = alpha.normalise_params(q, child) if not os.environ.get("VERIF_NO_ALPHA") else {}
                    mp = alpha.normalise_function(q, child)
                    if mp or pm:
                        self.renamed[q] = {**pm, **mp}
                    base = alpha.baseline()
                    if base and not os.environ.get("VERIF_NO_ALPHA"):
                        if q in base:
                            reviewed = {n for n, _s in base[q]}
                        elif q in set(base.get("__functions__", ())):
                            reviewed = set()
                        else:
                            reviewed = None
                        cl = normalise.inline_new_closures(child, reviewed)
                        al = [c + "()" for c in cl] + normalise.inline_new_aliases(child, reviewed)
                        if normalise.raise_new_accumulators(child, reviewed):
                            ast.fix_missing_locations(child)
                            al = al + normalise.inline_new_aliases(child, reviewed) + ["<accumulator loop>"]
                        if al:
                            self.renamed.setdefault(q, {}).update({a: "<inlined>" for a in al})
                            ast.fix_missing_locations(child)
                            Module.link_parents(child)
                            child._parent = node
                    if cls is not None and parent is None and child.name not in cls.methods:
                        cls.methods[child.name] = fi
                    visit(child, q, cls, fi)
                elif isinstance(child, (ast.If, ast.Try, ast.With, ast.For, ast.While)):
                    visit(child, prefix, cls, parent)

        visit(m.tree, m.name, None, None)

    # -- lookups (fail closed) -------------------------------------------------
    def module(self, name):
        if name not in self.modules:
            raise AnalysisError(f"anchor module {name} not found")
        return self.modules[name]

    def func(self, q):
        if q not in self.funcs:
            raise AnalysisError(f"anchor function {q} not found")
        return self.funcs[q]

    def has_func(self, q):
        return q in self.funcs

    def cls(self, q):
        if q not in self.classes:
            raise AnalysisError(f"anchor class {q} not found")
        return self.classes[q]

    def class_named(self, name, near=None):
        cands = self.classes_by_name.get(name, [])
        if not cands:
            return None
        if near is not None:
            for c in cands:
                if c.module is near:
                    return c
        if len(cands) == 1:
            return cands[0]
        return cands[0]

    def mro(self, ci):
        out, seen = [], set()

        def go(c):
            if c is None or c.qualname in seen:
                return
            seen.add(c.qualname)
            out.append(c)
            for b in c.bases:
                go(self.class_named(b, near=c.module))

        go(ci)
        return out

    def resolve_method(self, ci, name):
        for c in self.mro(ci):
            if name in c.methods:
                return c.methods[name]
        return None

    def subclasses(self, ci):
        out = []
        for c in self.classes.values():
            if c is not ci and ci in self.mro(c):
                out.append(c)
        return out

    def methods_named(self, name):
        return [
            f
            for f in self.funcs.values()
            if f.name == name and f.cls is not None
        ]

    def funcs_in(self, modname):
        return [f for f in self.funcs.values() if f.module.name == modname]

    def loc(self, fi_or_mod, node):
        m = fi_or_mod.module if isinstance(fi_or_mod, FuncInfo) else fi_or_mod
        return f"{m.relpath}:{getattr(node, 'lineno', 0)}"


def unparse(n):
    try:
        return ast.unparse(n)
    except Exception:  # pragma: no cover
        return repr(n)


def dotted(n):
    """'self._x.y' for Name/Attribute chains, else None."""
    parts = []
    while isinstance(n, ast.Attribute):
        parts.append(n.attr)
        n = n.value
    if isinstance(n, ast.Name):
        parts.append(n.id)
        return ".".join(reversed(parts))
    return None


def call_name(call):
    """Dotted name of the callee of an ast.Call (or None)."""
    return dotted(call.func)


def call_attr(call):
    """Last component of the callee name: 'add' for x.y.add(...)."""
    f = call.func
    if isinstance(f, ast.Attribute):
        return f.attr
    if isinstance(f, ast.Name):
        return f.id
    return None
