"""KNOWN FINDING (not repaired): producer.stop() -> Sender.close() cancels the sender routine, whose CancelledError arm
awaits the in-flight transaction task WITHOUT cancelling it; that task sits in Sender._find_coordinator's `while True`
retry loop, which has no closing test. With the transaction coordinator unreachable, stop() never returns.

This file demonstrates the defect on the real classes: the test PASSES while the defect is present (close() times out).
"""
import asyncio
from unittest import mock

import pytest

from aiokafka import errors as Errors
from aiokafka.producer.message_accumulator import MessageAccumulator
from aiokafka.producer.sender import Sender
from aiokafka.producer.transaction_manager import TransactionManager
from aiokafka.structs import TopicPartition


def test_sender_close_hangs_while_txn_coordinator_unreachable():
    async def main():
        client = mock.MagicMock()
        client.coordinator_lookup = mock.AsyncMock(side_effect=Errors.CoordinatorNotAvailableError())
        client.force_metadata_update = mock.AsyncMock(return_value=True)
        cluster = mock.MagicMock()
        cluster.leader_for_partition.return_value = 0
        txn = TransactionManager("txn-id", 60000)
        txn.set_pid_and_epoch(1, 0)
        txn.begin_transaction()
        txn.maybe_add_partition_to_txn(TopicPartition("t", 0))
        acc = MessageAccumulator(cluster, 1000, 0, 30, txn_manager=txn)
        sender = Sender(client, acks=-1, txn_manager=txn, message_accumulator=acc, retry_backoff_ms=10,
                        request_timeout_ms=1000)
        await sender.start()
        await asyncio.sleep(0.1)
        assert client.coordinator_lookup.await_count > 1  # AddPartitionsToTxn task is spinning in _find_coordinator
        with pytest.raises(asyncio.TimeoutError):
            await asyncio.wait_for(sender.close(), 2)  # what producer.stop() does: never returns
        for t in asyncio.all_tasks():
            if t is not asyncio.current_task():
                t.cancel()

    asyncio.run(main())
