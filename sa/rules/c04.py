"""C04 -- committed offsets never pass undelivered records; no loss across crash / rebalance."""
from __future__ import annotations

import ast

from ..loader import AnalysisError, call_attr, call_name, dotted, unparse
from ..rulekit import arg_of, const_value, def_value, is_none_test, local_defs
from . import c03, c05, c06

GC = c06.GC
FETCHER = c03.FETCHER
CONSUMER = c03.CONSUMER
ASG = "aiokafka.consumer.subscription_state.Assignment"


def _awaits(c, attr):
    return [n for n in c.nodes if n.kind == "await" and isinstance(n.ast, ast.Await) and isinstance(n.ast.value, ast.Call) and call_attr(n.ast.value) == attr]


def rule_commit_source(ctx):
    R = "commit-source"
    ctx.rep.rule(R, "every automatic commit (timer, before rebalance, on close) and Consumer.commit() without arguments commits "
                    "assignment.all_consumed_offsets(), computed at the time of the commit with no suspension in between; that method reports the "
                    "position of partitions with a valid position only")
    for m, callee in (("_maybe_do_autocommit", "_do_commit_offsets"), ("_maybe_do_last_autocommit", "commit_offsets")):
        fi = ctx.fn(f"{GC}.{m}")
        c = ctx.cfg(fi)
        cs = ctx.one(c.calls(attr=callee), f"{callee} call in {m}")
        a = [unparse(x) for x in cs.ast.args]
        pa = fi.params()[1]
        ctx.ob(R, fi, cs, a == [pa, f"{pa}.all_consumed_offsets()"], f"{m} commits {a}", text=f"{m}:args")
    fc = ctx.fn(f"{CONSUMER}.commit")
    c = ctx.cfg(fc)
    co = ctx.one(_awaits(c, "commit_offsets"), "await commit_offsets in Consumer.commit")
    # the user's argument is the second parameter; what is committed is whatever local reaches commit_offsets (the parameter rebound, or a
    # local of its own)
    upar = fc.params()[1]
    cargs = [unparse(x) for x in co.ast.value.args]
    sent = cargs[1] if len(cargs) == 2 else upar
    ds = local_defs(c, sent)
    nt = [t for t in c.nodes if t.kind == "test" and is_none_test(t.ast) is not None and unparse(is_none_test(t.ast)) == upar]
    dflt = [d for d in ds if unparse(def_value(d)) == "assignment.all_consumed_offsets()"]
    ok = len(nt) == 1 and len(dflt) == 1 and c.dominated_by_branch(nt[0], "T", dflt[0]) and cargs == ["assignment", sent] and sent.isidentifier()
    if ok and sent != upar:
        # a local of its own: on the other branch it is the validated copy of the user's argument, and nothing else
        other = [d for d in ds if d is not dflt[0]]
        ok = len(other) == 1 and unparse(def_value(other[0])) == f"commit_structure_validate({upar})" and c.dominated_by_branch(nt[0], "F", other[0])
    ctx.ob(R, fc, fc.node, ok, "commit() without arguments does not commit the consumed positions of the current assignment", text="api-default")
    if dflt:
        nos, w = ctx.no_suspension_between(fc, dflt[0], co)
        # the await of commit_offsets itself is the first suspension after computing the offsets
        ctx.ob(R, fc, co, nos, f"suspension {w!r} between computing the offsets and committing them", text="api-fresh")
    ad = local_defs(c, "assignment")
    ctx.ob(R, fc, fc.node, len(ad) == 1 and unparse(def_value(ad[0])) == "subscription.assignment", "commit() uses another assignment", text="api-assignment")
    fa = ctx.fn(f"{ASG}.all_consumed_offsets")
    ca = ctx.cfg(fa)
    st = [n for n in ca.nodes if n.kind == "store" and isinstance(n.ast, ast.Subscript)]
    vt = [t for t in ca.nodes if t.kind == "test" and unparse(t.ast) == "state.has_valid_position"]
    ok = len(st) == 1 and len(vt) == 1 and ca.dominated_by_branch(vt[0], "T", st[0]) and unparse(st[0].stmt.value) == "OffsetAndMetadata(state.position, '')"
    if ok:
        la = ca.enclosing(st[0], types=(ast.For,), role="body")
        ok = bool(la) and unparse(la[0][0].iter) == "self._topic_partitions" and unparse(st[0].ast.slice) == unparse(la[0][0].target)
        sd = local_defs(ca, "state")
        ok = ok and len(sd) == 1 and unparse(def_value(sd[0])) == f"self.state_value({unparse(la[0][0].target)})"
    ctx.ob(R, fa, fa.node, ok, "all_consumed_offsets is not {tp: position of tp} over partitions with a valid position", text="all-consumed-def")
    fo = ctx.fn(f"{GC}.commit_offsets")
    cc = ctx.cfg(fo)
    dc = ctx.one(cc.calls(attr="_do_commit_offsets"), "_do_commit_offsets in commit_offsets")
    ctx.ob(R, fo, dc, [unparse(x) for x in dc.ast.args] == fo.params()[1:3], "commit_offsets commits something else than it was given", text="commit-offsets-forwards")


def rule_prepare_order(ctx):
    R = "prepare-order"
    ctx.rep.rule(R, "_on_join_prepare: gate closed -> last auto-commit of the previous assignment -> revoke callback, in dominance order; on close "
                    "the coordination routine commits after leaving its loop, before close() stops heartbeat and leaves the group")
    fp = ctx.fn(f"{GC}._on_join_prepare")
    c = ctx.cfg(fp)
    br = c.calls(attr="begin_reassignment")
    lc = _awaits(c, "_maybe_do_last_autocommit")
    rv = c.calls(attr="on_partitions_revoked")
    ok = len(br) == 1 and len(lc) == 1 and len(rv) == 1 and c.dominates(br[0], lc[0]) and c.path_exists(lc[0], rv[0]) and not c.path_exists(rv[0], lc[0])
    ctx.ob(R, fp, fp.node, ok, "order gate -> last commit -> revoke callback is broken", text="order")
    if lc:
        ctx.ob(R, fp, lc[0], unparse(arg_of(lc[0].ast.value, 0)) == fp.params()[1], "last commit is not of the previous assignment", text="commit-previous")
        from ..rulekit import none_tests
        nt = none_tests(c, fp.params()[1])
        ok = bool(nt)
        if ok:
            t0, _l_none, l_some = nt[0]
            ok = c.dominated_by_branch(t0, l_some, lc[0]) and bool(rv) and rv[0] not in c.reachable([m for m, l in t0.succ if l == l_some], avoid=set(lc), exc=False, include_src=True)
        ctx.ob(R, fp, lc[0], ok, "with a previous assignment the revoke callback can run without the last commit having been attempted", text="commit-on-every-path")
        hs = [m for m, l in lc[0].succ if l == "exc" and m.kind == "handler"]
        ctx.ob(R, fp, lc[0], any("KafkaError" in unparse(h.ast.type) for h in hs), "a failed last commit aborts the rebalance", text="commit-failure-tolerated")
    fr = ctx.fn(f"{GC}.__coordination_routine")
    cr = ctx.cfg(fr)
    wl = ctx.one([n for n in cr.nodes if n.kind == "loop" and isinstance(n.ast, ast.While)], "coordination loop")
    lc = _awaits(cr, "_maybe_do_last_autocommit")
    ok = len(lc) == 1 and lc[0] not in cr.loop_body(wl) and cr.exit not in cr.reachable([wl], avoid=set(lc) | {n for n in cr.nodes if n.kind == "test" and unparse(n.ast) == "assignment is not None"}, exc=False)
    ctx.ob(R, fr, fr.node, ok, "closing does not commit the consumed positions", text="commit-on-close")
    if lc:
        ctx.ob(R, fr, lc[0], unparse(arg_of(lc[0].ast.value, 0)) == "assignment", "closing commits another assignment", text="close-commits-current")
    fc = ctx.fn(f"{GC}.close")
    cc = ctx.cfg(fc)
    aw = [n for n in cc.nodes if n.kind == "await"]
    ct = [n for n in aw if unparse(n.ast.value) == "self._coordination_task"]
    lv = _awaits(cc, "_maybe_leave_group")
    ok = len(ct) == 1 and len(lv) == 1 and cc.dominates(ct[0], lv[0]) is False or (len(ct) == 1 and len(lv) == 1 and cc.path_exists(ct[0], lv[0]) and not cc.path_exists(lv[0], ct[0]))
    ctx.ob(R, fc, fc.node, ok, "close() leaves the group before the coordination routine finished its last commit", text="close-order")


def rule_identity(ctx):
    R = "commit-identity"
    ctx.rep.rule(R, "the OffsetCommit carries group id, generation and member id as they are at the time of the request (no suspension between "
                    "building and sending), and one (partition, offset, metadata) entry per offset it was given")
    fi = ctx.fn(f"{GC}._do_commit_offsets")
    c = ctx.cfg(fi)
    rq = ctx.one(c.calls(name="OffsetCommitRequest"), "OffsetCommitRequest(...)")
    a = [unparse(x) for x in rq.ast.args]
    ctx.ob(R, fi, rq, a[:3] == ["self.group_id", "self.generation", "self.member_id"], f"OffsetCommitRequest identity {a[:3]}", text="identity")
    send = ctx.one(_awaits(c, "_send_req"), "await _send_req")
    nos, w = ctx.no_suspension_between(fi, rq, send)
    ctx.ob(R, fi, send, nos and c.dominates(rq, send), "identity can change between building and sending the commit", text="identity-fresh")
    app = [n for n in c.calls(attr="append") if unparse(n.ast.func.value).startswith("offset_data[")]
    ok = len(app) == 1
    if ok:
        la = c.enclosing(app[0], types=(ast.For,), role="body")
        el = arg_of(app[0].ast, 0)
        tgt = la[0][0].target if la else None
        ok = bool(la) and isinstance(tgt, ast.Tuple) and len(tgt.elts) == 2 and all(isinstance(x, ast.Name) for x in tgt.elts)
        if ok:
            tv, ov = tgt.elts[0].id, tgt.elts[1].id      # whatever the loop variables are called
            ok = unparse(la[0][0].iter) == f"{fi.params()[2]}.items()" and isinstance(el, ast.Tuple) and [unparse(x) for x in el.elts] == [f"{tv}.partition", f"{ov}.offset", f"{ov}.metadata"] \
                and unparse(app[0].ast.func.value) == f"offset_data[{tv}.topic]"
    ctx.ob(R, fi, fi.node, ok, "commit entries are not (partition, offset, metadata) of every given offset", text="entries")
    ctx.ob(R, fi, rq, "offset_data.items()" in a[-1], "request does not carry the collected entries", text="carries-entries")


def rule_new_owner(ctx):
    R = "new-owner"
    ctx.rep.rule(R, "a new owner starts from the committed offset: OffsetFetch examines each entry's error code before trusting its offset (no "
                    "path to the next entry bypasses the error test); errors are raised/retried, not turned into 'nothing committed'; "
                    "_maybe_refresh_commit_offsets answers exactly the partitions it asked about (C13 committed-source); the position update "
                    "uses reset_to(committed.offset) (C13 policy)")
    fi = ctx.fn(f"{GC}._do_fetch_commit_offsets")
    c = ctx.cfg(fi)
    fc = ctx.one(c.calls(attr="for_code"), "Errors.for_code in OffsetFetch handling")
    la = c.enclosing(fc, types=(ast.For,), role="body")[0][0]
    head = c.loop_head(la)
    nxt = [n for n in c.nodes if n.kind == "fornext" and n.ast is la][0]
    et = [t for t in c.nodes if t.kind == "test" and isinstance(t.ast, ast.Compare) and unparse(t.ast.left) == "error_type" and unparse(t.ast.comparators[0]).endswith("NoError")]
    ok = len(et) >= 1 and head not in c.reachable([m for m, l in nxt.succ if l == "T"], avoid=set(et), exc=False, include_src=True)
    ctx.ob(R, fi, la, ok, "an OffsetFetch entry can be consumed (or skipped as 'nothing committed') without looking at its error code", text="error-first")
    st = [n for n in c.nodes if n.kind == "store" and isinstance(n.ast, ast.Subscript) and unparse(n.ast.value) == "offsets"]
    ok = len(st) == 1 and unparse(st[0].stmt.value) == "OffsetAndMetadata(offset, metadata)" and unparse(st[0].ast.slice) == "tp"
    ctx.ob(R, fi, fi.node, ok, "committed offset is not recorded as (offset, metadata) under its partition", text="records-offset")
    if st and et:
        # the store is unreachable on an error other than the tolerated one
        e = et[0]
        err_branch = "T" if isinstance(e.ast.ops[0], (ast.IsNot, ast.NotEq)) else "F"
        eb = c.reachable([m for m, l in e.succ if l == err_branch], avoid=[head], include_src=True)
        ctx.ob(R, fi, st[0], st[0] not in eb, "an errored entry's offset can be recorded", text="no-offset-on-error")
    # partitions asked
    rq = ctx.one(c.calls(name="OffsetFetchRequest"), "OffsetFetchRequest(...)")
    ctx.ob(R, fi, rq, unparse(arg_of(rq.ast, 0)) == "self.group_id" and "partitions_by_topic.items()" in unparse(arg_of(rq.ast, 1)), "OffsetFetch asks about something else", text="asks")
    from . import c13
    c13.rule_committed_source(ctx)
    c13.rule_policy(ctx)


def run(ctx):
    rep = ctx.rep
    rep.explanation = ("C04 structural clauses: what is committed (consumed positions, computed at commit time), how the position can move (only to "
                       "next_fetch_offset at hand-out, C03 rules re-run here), atomic hand-out and the reassignment gate (C05), order gate -> last "
                       "commit -> revoke, commit identity, and that a new owner starts from the committed offset with errors not mistaken for "
                       "'nothing committed'.")
    rule_commit_source(ctx)
    c03.rule_position_writers(ctx)
    c03.rule_unpack(ctx)
    c03.rule_handout(ctx)
    c05.rule_gate(ctx)
    rule_prepare_order(ctx)
    rule_identity(ctx)
    rule_new_owner(ctx)
    c03.rule_api_handout(ctx)      # the position has moved: a raise after the hand-out loses records the next commit covers
    from .common import rule_explicit_partitions_kept
    rule_explicit_partitions_kept(ctx, "handout")
    from .common import rule_instance_state
    rule_instance_state(ctx, ("aiokafka.consumer.",))
    rep.nd("the group-wide at-least-once consequence across crashes (needs histories)")
