#!/venv/bin/python
"""Replace the seed table of DESIGN.md section 10 by the output of tools/seed_table.py."""
import os
import subprocess

VERIF = os.path.dirname(os.path.dirname(os.path.abspath(__file__)))
tab = subprocess.run([os.path.join(VERIF, "tools", "seed_table.py")], capture_output=True, text=True, check=True).stdout.rstrip("\n").splitlines()
tab = [l for l in tab if l.startswith("|")]
p = os.path.join(VERIF, "DESIGN.md")
lines = open(p).read().split("\n")
a = next(i for i, l in enumerate(lines) if l.startswith("| Seed | Property |"))
b = a
while b < len(lines) and lines[b].startswith("|"):
    b += 1
lines[a:b] = tab
open(p, "w").write("\n".join(lines))
print(f"spliced {len(tab) - 2} rows")
